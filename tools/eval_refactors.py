#!/usr/bin/env python3
"""False-alarm test: run both checks against behaviour-preserving changes (/verif/refactors/<id>/patch.diff).
Every check must exit 0.  Results -> /verif/refactors/RESULTS.json."""
import glob, json, os, shutil, subprocess, sys, time
VERIF = os.path.dirname(os.path.dirname(os.path.abspath(__file__)))
REPO = "/repo"; PY = "/venv/bin/python"

def sh(cmd, **kw):
    return subprocess.run(cmd, stdout=subprocess.PIPE, stderr=subprocess.STDOUT, **kw)

def main():
    ids = sys.argv[1:]
    res_path = os.path.join(VERIF, "refactors", "RESULTS.json")
    results = json.load(open(res_path)) if os.path.exists(res_path) else {}
    for pd in sorted(glob.glob(os.path.join(VERIF, "refactors", "*", "patch.diff"))):
        d = os.path.dirname(pd); rid = os.path.basename(d)
        if ids and rid not in ids:
            continue
        wt = "/var/tmp/refactor_wt_%s_%d" % (rid, os.getpid())
        sh(["git", "-C", REPO, "worktree", "add", "-q", "--detach", wt, "HEAD"], check=True)
        r = {}
        try:
            a = sh(["git", "-C", wt, "apply", pd])
            if a.returncode != 0:
                r["apply"] = "FAILED " + a.stdout.decode()[-200:]
            else:
                for so in glob.glob(os.path.join(REPO, "src/spectrum/mydpss*.so")):
                    shutil.copy(so, os.path.join(wt, "src/spectrum/"))
                env = dict(os.environ, PYTHONPATH=os.path.join(wt, "src"), MPLBACKEND="Agg")
                t = sh([PY, "-m", "pytest", "-q", "-p", "no:cacheprovider", "test"], cwd=wt, env=env, timeout=1800)
                r["tests"] = t.stdout.decode().strip().splitlines()[-1]
                c = sh([PY, os.path.join(d, "check.py")], cwd="/tmp", env=env, timeout=1800)
                r["own_check_exit"] = c.returncode
                for prop in ("C06", "C07"):
                    t0 = time.time()
                    c = sh([os.path.join(VERIF, "check"), prop, "--tier", "quick"], env=dict(os.environ, VERIF_REPO=wt), timeout=7200)
                    out = c.stdout.decode()
                    r[prop] = {"exit": c.returncode, "wall_s": round(time.time() - t0, 1), "summary": out.strip().splitlines()[-1][:200],
                               "alarms": [l[:300] for l in out.splitlines() if l.startswith(("violation ", "HARNESS-ERROR"))][:4],
                               "histories": [l.strip()[:400] for l in out.splitlines() if l.startswith("  minimised history")][:4]}
        finally:
            sh(["git", "-C", REPO, "worktree", "remove", "--force", wt]); shutil.rmtree(wt, ignore_errors=True)
        results[rid] = r
        print(rid, r.get("tests"), "own=%s" % r.get("own_check_exit"), "C06=%s" % r.get("C06", {}).get("exit"), "C07=%s" % r.get("C07", {}).get("exit"),
              (r.get("C06", {}).get("alarms") or r.get("C07", {}).get("alarms") or [""])[0][:200]); sys.stdout.flush()
        json.dump(results, open(res_path, "w"), indent=1, sort_keys=True)

if __name__ == "__main__":
    main()
