#!/usr/bin/env python3
"""Evaluate seeded changes (/verif/seeded/<id>/patch.diff) against the registered checks.

For each change: scratch worktree of /repo HEAD under /var/tmp (or --in-repo: apply to /repo itself and
`git checkout -- .` afterwards), apply the patch, [--tests] run the pinned suite, run demo.py (must FAIL),
run the property's check (quick tier unless --tier) against that tree, record exit code and first violation;
then remove the worktree.  Results -> /verif/seeded/RESULTS.json (merged by id).
"""
import argparse, glob, json, os, shutil, subprocess, sys, time

VERIF = os.path.dirname(os.path.dirname(os.path.abspath(__file__)))
REPO = "/repo"
PY = "/venv/bin/python"


def sh(cmd, **kw):
    return subprocess.run(cmd, stdout=subprocess.PIPE, stderr=subprocess.STDOUT, **kw)


def main():
    ap = argparse.ArgumentParser()
    ap.add_argument("ids", nargs="*")
    ap.add_argument("--tests", action="store_true")
    ap.add_argument("--tier", default="quick")
    ap.add_argument("--scale", default=None)
    ap.add_argument("--seed", default=None)
    ap.add_argument("--out", default="RESULTS.json")
    args = ap.parse_args()
    dirs = sorted(glob.glob(os.path.join(VERIF, "seeded", "*", "patch.diff")))
    res_path = os.path.join(VERIF, "seeded", args.out)
    results = json.load(open(res_path)) if os.path.exists(res_path) else {}
    for pd in dirs:
        d = os.path.dirname(pd)
        sid = os.path.basename(d)
        if args.ids and sid not in args.ids:
            continue
        meta = json.load(open(os.path.join(d, "meta.json")))
        prop = meta.get("evaluated_with_check") or meta["property"]
        wt = "/var/tmp/seeded_wt_%s_%d" % (sid, os.getpid())
        sh(["git", "-C", REPO, "worktree", "add", "-q", "--detach", wt, "HEAD"], check=True)
        r = {"property": prop}
        try:
            a = sh(["git", "-C", wt, "apply", pd])
            if a.returncode != 0:
                r["apply"] = "FAILED: " + a.stdout.decode()[-300:]
                results[sid] = r
                continue
            env = dict(os.environ, PYTHONPATH=os.path.join(wt, "src"), MPLBACKEND="Agg")
            for so in glob.glob(os.path.join(REPO, "src/spectrum/mydpss*.so")):
                shutil.copy(so, os.path.join(wt, "src/spectrum/"))
            if args.tests:
                t = sh([PY, "-m", "pytest", "-q", "-p", "no:cacheprovider", "test"], cwd=wt, env=env, timeout=1800)
                r["tests"] = t.stdout.decode().strip().splitlines()[-1]
            dm = sh([PY, os.path.join(d, "demo.py")], cwd="/tmp", env=env, timeout=600)
            r["demo_with_change_exit"] = dm.returncode
            env2 = dict(os.environ, VERIF_REPO=wt)
            cmd = [os.path.join(VERIF, "check"), prop, "--tier", args.tier]
            if args.scale:
                cmd += ["--scale", args.scale]
            if args.seed:
                cmd += ["--seed", args.seed]
            t0 = time.time()
            c = sh(cmd, env=env2, timeout=4 * 3600)
            out = c.stdout.decode()
            r["check_cmd"] = " ".join(cmd[1:])
            r["check_exit"] = c.returncode
            r["check_wall_s"] = round(time.time() - t0, 1)
            v = [l for l in out.splitlines() if l.startswith("violation ")]
            h = [l for l in out.splitlines() if l.startswith("  minimised history")]
            r["first_violation"] = (v[0][:300] if v else None)
            r["first_history"] = (h[0].strip()[:400] if h else None)
            r["clauses"] = sorted(set(l.split()[1] for l in v))
            r["summary"] = out.strip().splitlines()[-1][:300]
            r["verdict"] = {1: "CAUGHT", 0: "MISSED"}.get(c.returncode, "HARNESS-ERROR")
            # demo on the unchanged tree
            sh(["git", "-C", wt, "checkout", "--", "."])
            dm2 = sh([PY, os.path.join(d, "demo.py")], cwd="/tmp", env=env, timeout=600)
            r["demo_without_change_exit"] = dm2.returncode
        finally:
            sh(["git", "-C", REPO, "worktree", "remove", "--force", wt])
            shutil.rmtree(wt, ignore_errors=True)
        results[sid] = r
        print("%-10s %-4s %-14s tests=%s demo(with)=%s demo(without)=%s %5.1fs %s" % (
            sid, prop, r.get("verdict"), r.get("tests", "-"), r.get("demo_with_change_exit"),
            r.get("demo_without_change_exit"), r.get("check_wall_s", 0), (r.get("first_violation") or "")[:140]))
        sys.stdout.flush()
        json.dump(results, open(res_path, "w"), indent=1, sort_keys=True)
    print("NOTE: evidence/*.json were rewritten by runs against changed trees; re-run the checks on /repo before committing evidence")


if __name__ == "__main__":
    main()
