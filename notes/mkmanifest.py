import json
NA = {
 "C01": "pure function of (x, window, NFFT): equality of speriodogram/Periodogram/CORRELOGRAMPSD output with a closed-form DFT expression; no state persists between calls, no schedule, clock, I/O or fault for a simulator to own (DESIGN.md section 7). Decided by property-based testing against numpy.fft, not by this technique.",
 "C02": "length, axis and peak position of the PSD of a freshly constructed object read once, per constructor arguments: an input-only statement. The one history-dependent piece (len(frequencies()) == len(psd) along histories) is checked as a clause of C07.",
 "C03": "relation between two independent evaluations at x and c*x (metamorphic); nothing persists between them, so there is no history, schedule or fault to simulate.",
 "C04": "relations between independent evaluations at x, modulated x, conj(x), reversed x (metamorphic, inputs only).",
 "C05": "relation between evaluations at two NFFT values (metamorphic). The stateful NFFT setter it anchors is exercised by the C07 machine, which asks a different question (equal to fresh at the same NFFT) and cannot see an NFFT-dependent normalisation shared by the fresh object.",
 "C08": "relation between evaluations at two scale_by_freq/sampling settings plus a closed form for arma2psd: inputs/configurations only. The C07 machine is blind to it by construction (a doubled or missing scaling is present in the fresh reference too).",
 "C09": "closed-form definitions of CORRELATION, xcorr and corrmtx as functions of their arguments; stateless.",
 "C10": "residuals of linear solvers as functions of their inputs; the raises-on-non-positive-definite clause is an input-determined error path, not an injected fault.",
 "C11": "inverse and commutation identities between pure converter functions.",
 "C12": "stability and autocorrelation matching of aryule as a function of (data, order); stateless.",
 "C13": "stability, nesting and per-stage optimality of arburg as a function of (data, order); the Criteria helper is created and discarded inside one call and driven by a deterministic loop.",
 "C14": "least-squares optimality of arcovar/modcovar as functions of (data, order); stateless.",
 "C15": "validity and invertibility of ma/arma_estimate outputs as functions of (data, orders, lag); stateless.",
 "C16": "closed-form identity of minvar output as a function of (data, order, NFFT); stateless.",
 "C17": "peak locations and singular values of eigen() as functions of inputs; stateless.",
 "C18": "dpss as a function of (N, NW, k). Its only non-functional hazard, the non re-entrant f2c statics in mydpss.c under concurrent callers, is a native data race executed with the GIL released: a Python-level deterministic simulator cannot schedule it, and no listed property quantifies over schedules.",
 "C19": "pmtm / MultiTapering output as a function of inputs; the adaptive loop is deterministic and bounded.",
 "C20": "windows as functions of (name, N, parameters); 'all N <= 512' is enumeration of inputs, not of schedules or faults."
}
m = {
 "version": 1,
 "setup_cmd": "./check setup",
 "hooks": {
  "guard": "SPECTRUM_VERIF",
  "enable": "no source hooks exist: the checks observe the real package through its public API and rebind, per run and harness-side only, the kernel names the classes already resolve at call time; the guard name is reserved and unused",
  "baseline_off_cmd": "cd /repo && /venv/bin/python -m pytest -ra -q -p no:cacheprovider --timeout=900 --continue-on-collection-errors",
  "source_commits": [],
  "add_only": True
 },
 "engines": [
  {"name": "sim", "path": "sim/", "serves_properties": ["C06", "C07"],
   "kind_free_text": "single-actor deterministic simulator: seeded history and fault generator, kernel-level fault plane, reference models (fresh object in-process / in a pristine forked process; canonical two-sided spectrum), ddmin shrinker, replay files"}
 ],
 "checks": [],
 "not_applicable": [{"property_id": k, "reason": v} for k, v in sorted(NA.items())],
 "notes": "Technique family: deterministic simulation with fault injection. Two of twenty properties have state, histories and faults for a simulator to own (C06, C07); the other eighteen are pure functions of their inputs and are listed as not applicable with reasons (DESIGN.md sections 2 and 7). Genuine defects found on the pinned tree were repaired by separate 'fix:' commits in /repo and are recorded in known_findings.json as fixed. One further genuine defect (pdaniell: len(frequencies()) != len(psd), no small repair) is listed in known_findings.json as known; the C07 check re-observes it with a fixed probe and prints KNOWN-FINDING (DESIGN.md section 3.8); pdaniell is not driven by the seeded search."
}
C07 = {
 "property_id": "C07",
 "quick_cmd": "./check C07 --tier quick",
 "thorough_cmd": "./check C07 --tier thorough",
 "evidence_file": "evidence/C07.json",
 "replay_cmd_template": "./check replay {path}",
 "engine": "sim",
 "technique": "deterministic simulation with fault injection: seeded search over operation histories and fault sequences (rejected assignments, failing computations, injected kernel failures) on one real estimator object, checked step by step against an executable reference model (fresh object with the reported attribute values)",
 "level_claimed": {
  "category": "exploration",
  "text": "Seeded exploration of histories x classes x fault positions: every abstract history of length <= 2 (quick) / <= 3 (thorough) over the operation alphabet is visited for all twelve classes, real and complex data, even and odd lengths, warm and cold caches, plus long random swarm-configured histories in fault-free, natural-fault, injected-fault and mixed configurations, runs in which two or three objects of different classes are interleaved by the seeded scheduler (cross-object leaks), and histories on the bare Range axis helper. Each psd read is compared with a freshly constructed object (same process; for a seed-selected subset also in a pristine forked process that never ran any estimator code); df, len(frequencies()) and re-assignment invariance are checked along the way. A clean batch is evidence, not proof; every failure is minimised and replayed in a fresh process before it is reported.",
  "design_ref": "DESIGN.md section 4"
 },
 "level_note": "Trusted base: numpy/scipy/LAPACK determinism with one BLAS thread; the reference is the same estimator code evaluated on a fresh object, so the check decides staleness and internal consistency, not numerical correctness. Faults are injected at kernel granularity only."
}
m["checks"].append(C07)
import sys
if len(sys.argv) > 1 and sys.argv[1] == "with06":
    C06 = {
     "property_id": "C06",
     "quick_cmd": "./check C06 --tier quick",
     "thorough_cmd": "./check C06 --tier thorough",
     "evidence_file": "evidence/C06.json",
     "replay_cmd_template": "./check replay {path}",
     "engine": "sim",
     "technique": "deterministic simulation (single actor, rejected operations as the only faults): seeded search over conversion histories on one stored PSD, every step compared with the rendering of one fixed canonical two-sided reference model",
     "level_claimed": {
      "category": "exploration",
      "text": "Seeded exploration of conversion histories: all sequences over {onesided, twosided, centerdc} up to length 4 (sides assignments, with get_converted_psd for every target after every step) for real and complex data, NFFT even and odd, every basis vector plus distinct-value, random, integer, narrow-dtype, signed, inf/zero-containing and complex-valued PSD vectors; a grid of every NFFT up to 512 (4096 thorough) x eleven sampling rates for floating-point axis arithmetic; random histories on base Spectrum objects and on computed PSDs of all twelve estimator classes interleaving conversions with reads, rejected requests, re-based psd assignments, no-op re-assignments and invalidating assignments (the model is then re-based on a fresh object), plus chains of the tools helpers and arma2psd(sides='centerdc'); each step must equal the rendering of one canonical two-sided model tied to the object's own frequencies().",
      "design_ref": "DESIGN.md section 5"
     },
     "level_note": "Trusted base: the 40-line canonical model (refmodel.canonical_from / render); exact binary halving (values kept away from subnormals)."
    }
    m["checks"].insert(0, C06)
else:
    m["not_applicable"].append({"property_id": "C06", "reason": "TEMPORARY: machine M06 is being implemented (DESIGN.md section 5); will be claimed in a later commit"})
    m["not_applicable"].sort(key=lambda d: d["property_id"])
json.dump(m, open('/verif/MANIFEST.json', 'w'), indent=1)
