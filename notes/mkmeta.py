import json, os
needs = {
 "C06-a1": ("tools.twosided_2_onesided folds in place into the caller's float array (np.asarray view instead of a copy)", "real data, float PSD stored with sides='twosided', then get_converted_psd('onesided') and continued use of the same object (the sides setter hides it); or the helper on a float ndarray"),
 "C06-a2": ("get_converted_psd derives the Nyquist parity from the data length N instead of NFFT", "real data, one-sided stored PSD, data length and NFFT of different parity (padding, odd NFFT with even data, NFFT < N)"),
 "C06-a3": ("get_converted_psd memoises per target sides; invalidation added to the real branch of the psd setter only", "complex data, one object reused: store/compute PSD A, convert, store/recompute PSD B, convert again"),
 "C06-b1": ("centerdc_2_twosided 'refactored' to fftshift (needs ifftshift)", "odd NFFT, PSD currently stored as centerdc, conversion away from it"),
 "C06-b2": ("twosided_2_onesided writes the fold into a view of its argument", "real data, stored sides twosided, get_converted_psd('onesided') (query, not assignment), then continued use"),
 "C06-b3": ("twosided_2_onesided assumes mirror symmetry (doubles +f instead of adding -f)", "a two-sided vector that is not mirror symmetric reaching the helper (basis vector, ramp)"),
 "C06-c1": ("onesided_2_twosided halves a view of the caller's array in place", "float64 one-sided stored PSD and a conversion through get_converted_psd (not the sides setter), then the same object used again"),
 "C06-c2": ("sides='default' returns early after relabelling, without converting the stored PSD", "computed PSD, at least one conversion away from the default sides, then sides='default'"),
 "C06-c3": ("get_converted_psd memoised per (from, to); cache cleared only in the lazy-recompute branch of the psd getter, not in the psd setter", "convert, replace the PSD without the lazy getter (psd = v, or data change + explicit call), convert again"),
 "C07-a1": ("sides setter skips conversion when sides is unchanged but still clears the modified flag", "compute, assign an invalidating attribute, assign sides its current value, read psd"),
 "C07-a2": ("sampling setter rebuilds the Range from the data length instead of updating it", "NFFT different from len(data) and sampling assigned a new value after construction"),
 "C07-a3": ("scale_by_freq setter rescales the cached PSD in place instead of invalidating", "Periodogram (scales twice) or MultiTapering (never scales) with a computed PSD, then toggling scale_by_freq"),
 "C07-b1": ("psd getter clears the modified flag before computing", "a computed PSD, an assignment that makes the next lazy recomputation raise, the failure caught, psd read again"),
 "C07-b2": ("sides setter early-out for an unchanged value leaves modified=False", "compute, outdate, p.sides = p.sides (or 'default'), read"),
 "C07-b3": ("get_converted_psd uses N parity instead of NFFT parity", "real data with NFFT parity different from data-length parity, then sides='twosided'/'centerdc'"),
 "C07-c1": ("NFFT setter resets sides outside the 'NFFT really changed' block", "compute, non-default sides, assign NFFT through an alias of its current value (None / 'nextpow2')"),
 "C07-c2": ("pcovar.__call__ re-runs arcovar only when len(ar) != ar_order (cache key forgets the data)", "class pcovar only: compute, assign data, read/call with the order unchanged"),
 "C07-c3": ("ar/ma/rho/reflection of all parametric estimators regrouped into one class-level dict; pburg passes B=self.ma", "two live objects: a parma/pma object computes, then a pburg object (constructed earlier) computes, no ParametricSpectrum constructed in between"),
}

needs.update({
 "C06-d1": ("direct centerdc->onesided shortcut in get_converted_psd assigns instead of adding the last folded value", "odd NFFT >= 3, real data, PSD stored as centerdc, direct conversion to onesided"),
 "C06-d2": ("sides setter returns early when sides is unchanged, skipping recompute+convert of an obsolete PSD; the next read recomputes and resets sides (breaks C06's 'ends at sides s' only through C07's invalidation interplay, so it is evaluated with the C07 check)", "compute, non-default (or any) sides S, invalidating assignment that does not reset sides, p.sides = S again, read"),
 "C06-d3": ("onesided_2_twosided 'nothing to split' special case widened to len <= 2 and moved above the even test", "NFFT exactly 3, real data, conversion starting from onesided (or the helper with even=False)"),
 "C06-e1": ("sides setter early return for an unchanged value (same as C06-d2, other author)", "compute, sides S, non-NFFT parameter change, p.sides = S, read; evaluated with the C07 check"),
 "C06-e2": ("psd setter (complex branch) resets sides only when the length changed", "complex data, object in centerdc, psd re-assigned with the same length"),
 "C06-e3": ("direct onesided->centerdc fast path always treats the last bin as Nyquist", "real data, odd NFFT, direct step onesided -> centerdc"),
 "C06-f1": ("cshift rounds float offsets (banker's rounding) instead of truncating", "float offset len/2 on a vector of odd length with N % 4 == 3 (the documented centring idiom)"),
 "C06-f2": ("Range.onesided_gen built with numpy.arange and a float endpoint", "real data, even NFFT, particular NFFT/sampling pairs (NFFT = 12, 18, 42, 48, 56, ... at sampling 1)"),
 "C06-f3": ("merged psd-setter branches lose the update of the Range (second copy of NFFT)", "complex data and a hand-stored PSD whose length differs from the current NFFT"),
 "C07-d1": ("arma2psd takes its zero-padded work arrays from a module-level dict and never re-zeroes them", "an arma2psd-based estimator, same NFFT, a later computation with a lower order than an earlier one in the same process (process-wide leak: an in-process fresh object is wrong too)"),
 "C07-d2": ("arburg works in place on the caller's complex array (asarray + astype(copy=False))", "complex data, pburg or pminvar, a second computation on the same object"),
 "C07-d3": ("module-level table of computed windows keyed by a truncated name", "Fourier estimator, two window names of one group (blackman/blackman_harris/..., bartlett/bartlett_hann, poisson/poisson_hanning) one after the other with the same length (process-wide leak)"),
 "C07-e1": ("psd setter (real branch) re-derives NFFT from the PSD length using true division", "real data and odd NFFT: every computation rewrites NFFT to NFFT-1"),
 "C07-e2": ("pminvar.__call__ branches on self.sides == 'onesided' instead of the data type", "pminvar recomputation while sides is not the default (centerdc + parameter change, sides before first compute, data type flip)"),
 "C07-e3": ("both centre-DC helpers use fftshift", "odd NFFT and a two-step sides history leaving centerdc"),
 "C07-f1": ("window setter stores the value and sets modified before validating", "an invalid window name (rejected), then continued use of the object"),
 "C07-f2": ("psd getter recomputes only when modified is True (drops the 'psd is None' test); the sides setter still clears modified on a cold object", "sides assigned before psd was ever read, then psd read returns None"),
 "C07-f3": ("arburg overwrites the estimator's own complex data in place (two cooperating one-word edits)", "pburg, complex128 ndarray data, at least two computations on the same object"),
})

needs.update({
 "C06-g1": ("centerdc reordering splits at a floating-point test k*(sampling/N) < sampling/2 instead of the integer N - N//2", "a numeric coincidence: even NFFT with a particular sampling (98, 196, 206 at sampling 1; 38, 76 at 0.1/1000/8000; 82 at 44100; about 5% of even NFFT up to 4096, never powers of two or NFFT < 38)"),
 "C06-g2": ("get_converted_psd reads self.sides once before it refreshes an obsolete PSD (the refresh resets sides)", "compute; non-default sides; an invalidating assignment that does not reset sides; then get_converted_psd directly"),
 "C06-g3": ("data setter writes the data length into Range.N, which is the second copy of NFFT", "data re-assigned on an existing object with NFFT different from the new data length, real data"),
 "C06-h1": ("Nyquist bin detected by float equality frequencies('onesided')[-1] == sampling/2 instead of NFFT parity", "real data, one-sided stored PSD, conversion to twosided/centerdc and an unlucky even NFFT (98, 196, 206, 214 ... at sampling 1; 22, 44, 78 at 100; 82, 86 at 44100)"),
 "C06-h2": ("cshift implemented with np.roll without axis (flattens 2-D input)", "a 2-D PSD matrix (frequency along axis 0, several columns) passed to cshift; 1-D input is bit-identical. NOT CLAIMED: the statement is about PSD vectors; 2-D input is outside it and the check does not generate it"),
 "C06-h3": ("twosided_2_onesided unified with a 0/1 fold mask: 0*inf = NaN", "a conversion ending at onesided with inf exactly at the zero-frequency or Nyquist bin (e.g. the PSD of arma2psd([-1.]))"),
 "C07-g1": ("re-entrancy guard around self() in the psd getter without try/finally", "a psd read whose computation raises (or str(p), which swallows it), then the attribute repaired and psd read again"),
 "C07-g2": ("frequencies() caches its lists per sides and clears them only when df changes", "frequencies() called, then NFFT and sampling both changed by the same factor with no frequencies() call in between, then frequencies() again"),
 "C07-g3": ("order setters write modified = modified or (x != old): numpy.True_ fails the `is True` tests", "a parametric estimator with a computed PSD, then an order assigned as a numpy integer, then a read"),
 "C07-h1": ("same as C07-g3 (other author): numpy.True_ in the modified flag", "ar_order / ma_order assigned as numpy.int64 after a computation"),
 "C07-h2": ("__computing guard in the psd getter without try/finally", "an attribute value that makes the lazy computation fail, a read that raises, the attribute repaired, another read"),
 "C07-h3": ("pburg builds its Criteria object once in the constructor with the data length of that moment", "pburg with criteria != None, data re-assigned with a different length, read, and data for which the stale N moves the selected order"),
})

needs.update({
 "C06-i1": ("centerdc_2_twosided assigns into a pre-allocated float buffer, silently dropping imaginary parts", "a stored PSD with complex dtype and non-zero imaginary parts (MultiTapering on complex data with method='adapt', or a hand-set complex-valued psd) converted away from centerdc"),
 "C06-i2": ("twosided_2_centerdc takes data[-(N//2):] (the -0 slice)", "NFFT == 1 exactly"),
 "C06-i3": ("NFFT setter resets sides outside the 'NFFT really changed' block", "a conversion to non-default sides, then an NFFT request that resolves to the current NFFT under another spelling (None / 'nextpow2'), then any read or conversion"),
 "C07-i1": ("pburg.__call__ wraps arburg in try/except ValueError and reuses the previous AR model", "pburg, a successful computation, then an assignment that makes arburg raise ValueError (ar_order = 0, constant data, or a transient kernel failure), then a psd read"),
 "C07-i2": ("psd getter sets the stored PSD to None when the computation fails; the sides setter then sees 'no psd' and clears the flag without converting", "compute, invalidate, a psd read that fails transiently, then sides = s, then read (the assigned sides is lost)"),
 "C07-i3": ("the refresh inside the sides setter inlined as try: self() finally: modified = False", "compute, invalidate without reading, a sides assignment whose refresh fails, then read psd"),
 "C07-j1": ("sides setter relies on get_converted_psd to refresh, which reads self.sides before the refresh", "compute; non-default sides; invalidating assignment that does not reset sides; sides = anything; read"),
 "C07-j2": ("data setter writes same-shape data into the array it already owns (dtype and datatype stay those of the first data)", "a data assignment of the same length but another kind (complex to real, real to complex, int list to float array)"),
 "C07-j3": ("pmusic/pev write the automatically selected NSIG back to self.NSIG and reuse it forever", "pmusic or pev built without NSIG/threshold, one computation, then data for which the criterion would pick another number (or a lower ar_order)"),
})

needs.update({
 "C06-k1": ("centre-DC helpers index through a module-level dict of rotation permutations keyed on the length only (odd N needs different rotations for the two directions)", "an odd length and both directions used on that length in one process"),
 "C06-k2": ("sides setter writes the converted values into the existing buffer (self.__psd[:] = newpsd) for twosided <-> centerdc", "a second holder of the stored array: a get_converted_psd(<current sides>) result kept across a later sides assignment (or copy.copy of the object)"),
 "C06-k3": ("Range.centerdc_gen with true division (half-bin offset for odd N)", "odd NFFT, sides centerdc, a check that ties values to frequencies('centerdc')"),
 "C06-l1": ("twosided_2_centerdc returns one module-level work array per (length, dtype) on every call", "two centre-DC results of the same length alive at once (two objects, or one object plus any other centre-DC conversion of that length)"),
 "C06-l2": ("twosided_2_onesided folds in the input dtype (no dtype=float)", "integer or float32 two-sided input whose folded sums leave the dtype's range (int8/uint8, huge Python ints, float32 beyond 24 bits)"),
 "C06-l3": ("onesided_2_twosided takes abs() of its input", "a stored one-sided PSD with negative entries (cross-PSD)"),
 "C07-k1": ("twosided_2_onesided returns a view and folds into the stored PSD when get_converted_psd('onesided') is asked of a twosided object", "real data, computed PSD, sides='twosided', get_converted_psd('onesided'), then psd"),
 "C07-k2": ("Range.twosided via numpy.arange with a float step (NFFT+1 points for unlucky NFFT/sampling pairs)", "sides twosided and NFFT in 49, 98, 103, 107 (sampling 1, 2, 1024), 29, 31, 58 (100), 61, 77 (10)"),
 "C07-k3": ("pma stores a copy self.M of its AR order at construction and uses it in __call__", "pma only: assign another ar_order after construction, read"),
 "C07-l1": ("Range becomes a class-level default shared by all Spectrum objects", "two live estimators whose NFFT or sampling differ, continued use of the older one"),
 "C07-l2": ("default NFFT follows a new data length by writing __NFFT directly (Range.N keeps the old value)", "NFFT equal to the data length, real data, then data of another length"),
 "C07-l3": ("psd setter re-applies the user's sides, but scale() round-trips through the setter and converts twice", "non-default sides after a computation, another attribute assigned, a read, and a scaling estimator (scale_by_freq=True)"),
})

needs.update({
 "C06-m1": ("pcorrelogram skips the one-sided fold when data_y is assigned, but the psd setter still labels the NFFT-long vector 'onesided'", "pcorrelogram with real data and data_y assigned (attribute only), then any conversion"),
 "C06-m2": ("Nyquist presence inferred from the parity of the one-sided length (even = len(psd) % 2 == 1)", "real data, NFFT = 1 or 2 (mod 4): 5, 6, 9, 10, 65, 66, 201"),
 "C06-m3": ("scale_by_freq setter rescales through self.psd /= ..., i.e. through the psd setter, which resets the label without converting", "a parametric estimator, a current PSD in non-default sides, a scale_by_freq toggle between two conversions"),
 "C06-n1": ("pcorrelogram skips the fold when data_y is complex (label stays onesided)", "pcorrelogram, real data, complex data_y assigned through the attribute"),
 "C06-n2": ("NFFT setter does not update Range.N when the assigned value is None", "NFFT different from the data length, then p.NFFT = None"),
 "C06-n3": ("data setter returns early for same-length data, leaving datatype stale", "data replaced by data of the other kind (real <-> complex) with exactly the same length, then a conversion"),
 "C07-m1": ("ParametricSpectrum lag setter assigns modified = (lag != old): re-assigning an unchanged lag clears a pending invalidation", "parma, computed PSD, an invalidating assignment, p.lag = <same>, read"),
 "C07-m2": ("ma_order setter compares the new value with ar_order instead of ma_order", "parma or pma, computed PSD, ma_order assigned a new value equal to the current ar_order"),
 "C07-m3": ("MultiTapering keeps its tapers between computations; the invalidation sits in an overridden _setData that the inherited property never calls", "MultiTapering, computed once, data of a different length assigned, read"),
 "C07-n1": ("pmtm 'eigen' weights computed with an in-place /= on a view of the caller-supplied eigenvalues (self.e)", "MultiTapering(data, e=..., v=..., method='eigen'), a read, any invalidating assignment, a second read"),
 "C07-n2": ("CORRELOGRAMPSD silently raises NFFT to 2*lag+1 when NFFT <= lag", "pcorrelogram with NFFT <= lag < N"),
 "C07-n3": ("the only effective 'complex data cannot be onesided' assertion removed from get_converted_psd", "complex data, computed PSD, sides='onesided' (lossy fold), then sides='twosided' or 'centerdc'"),
})

needs.update({
 "C06-o1": ("Range.centerdc_gen built from fftshift(fftfreq(N)) with the sample spacing forgotten", "sampling != 1 together with the centerdc representation"),
 "C06-o2": ("psd getter clears the modified flag before computing (a failing refresh leaves the object marked up to date)", "PSD stored as centerdc, NFFT changed, a refresh that raises, the cause repaired through a plain attribute, further use"),
 "C06-o3": ("onesided_2_twosided tests `if even is True`", "the helper called with the parity flag as a numpy bool or the integer 1 and an even target length"),
 "C06-p1": ("`if even is True` in the helper plus NFFT='nextpow2' computed as 2 ** n (a numpy integer, so NFFT % 2 == 0 is a numpy bool)", "real data, NFFT='nextpow2', then any conversion away from onesided"),
 "C06-p2": ("onesided_2_twosided splits x into x/2 and x - x/2 (inf - inf = nan)", "a stored one-sided PSD with an infinite interior value"),
 "C06-p3": ("centred axis via fftshift(fftfreq(N)) without the sample spacing", "sampling != 1 and use of the centerdc axis"),
 "C07-o1": ("pyule caches its AR fit under (id(self.data), order, norm): CPython re-uses the address of a released copy", "pyule, computed PSD, data assigned twice in a row with no read in between and no long-lived allocation in between"),
 "C07-o2": ("datatype decided by value (isreal(data).all()) while the kernel decides by dtype", "Periodogram and a complex-dtype array whose imaginary part is identically zero"),
 "C07-o3": ("'nextpow2' derived from Range.N (the current NFFT) instead of the data length", "NFFT='nextpow2' assigned after another NFFT value or after a data-length change; the object stays self-consistent"),
 "C07-p1": ("plot(norm=True) normalises the cached PSD in place", "plot(norm=True) with sides omitted or equal to the current one, then a psd read"),
 "C07-p2": ("'nextpow2' derived from the wrong private copy (same as C07-o3, other author)", "NFFT='nextpow2' assigned later; only the comparison with a fresh object built with NFFT='nextpow2' differs"),
 "C07-p3": ("a 'scale only once' flag re-armed in the psd getter only, not on explicit p() / p.run()", "scale_by_freq=True and a second explicit computation on the same object, then a read"),
})

needs.update({
 "C06-q1": ("sides setter 'undo' shortcut remembers the representation it is leaving, captured before the obsolete-PSD refresh", "computed PSD, a parameter change, sides = X, sides = the original value"),
 "C06-q2": ("psd setter re-applies the sides in use; scale() round-trips through it and converts twice", "an estimator whose __call__ scales, scale_by_freq=True, non-default sides in use, a recomputation"),
 "C06-q3": ("arma2psd centres its output by multiplying the coefficients by (-1)**k before the FFT", "arma2psd(..., sides='centerdc') with odd NFFT"),
 "C06-r1": ("cshift via numpy slicing: negative offsets are used as they are and return the input unchanged", "a negative offset passed to cshift"),
 "C06-r2": ("twosided_2_centerdc split point int(round(N/2.)) (banker's rounding)", "odd NFFT with N % 4 == 1 and a conversion to centerdc"),
 "C06-r3": ("Range.onesided_gen yields n*sampling/N while the other axes keep n*df: one-ulp differences between axes for some (NFFT, k)", "non-dyadic frequency step and an EXACT comparison of frequencies across sides. NOT CLAIMED: the check compares frequencies with a relative tolerance of 1e-9 on purpose (n*sampling/N is as legitimate as n*df), so a one-ulp difference between two axes is not a violation for it"),
 "C07-q1": ("psd setter keeps the sides label when the length is unchanged (complex branch)", "complex data, sides='centerdc' after a first computation, then any recomputation"),
 "C07-q2": ("data setter aliases the caller's ndarray (no copy)", "ndarray input that the caller later overwrites in place without re-assigning it"),
 "C07-q3": ("datatype latches to 'complex' (if/elif slip in the data setter)", "one object going from complex to real data"),
 "C07-r1": ("scale() takes its frequency step from the private Spectrum.__df (sampling/N) rescaled by N/NFFT", "scale_by_freq=True and a data-length change with no later sampling change"),
 "C07-r2": ("MultiTapering's adaptive iteration starts from the previous weights", "MultiTapering(method='adapt'), at least two computations with unchanged NFFT and taper count (deviation 7e-4 .. 29 %)"),
 "C07-r3": ("parma lag setter drops the cache with self.__psd = None, which mangles to another name: a no-op", "parma, computed PSD, a different lag, no other invalidating setter before the read"),
})

needs.update({
 "C06-s1": ("get_converted_psd compares the stored sides label with `is 'onesided'` / `is 'centerdc'`", "sides assigned a run-time (non-interned) string, then a conversion away from that representation"),
 "C06-s2": ("frequencies(): `if sides is None or sides == 'default'` resolves the no-argument call to the default sides", "a conversion to non-default sides, then frequencies() without argument (or plot())"),
 "C06-s3": ("arma2psd centres the frequency responses before forming the PSD, with elif for the MA part (ARMA: only the denominator is centred)", "arma2psd(A=..., B=..., sides='centerdc') with both A and B"),
 "C06-t1": ("the complex-data guard rewrapped as assert (cond, msg): a non-empty tuple is always true", "complex data, sides='onesided' somewhere in the sequence (now accepted: a lossy fold), then continued use"),
 "C06-t2": ("Range.centerdc_gen iterates range(-N//2, N//2): -N//2 is not -(N//2)", "odd NFFT and a comparison with frequencies('centerdc')"),
 "C06-t3": ("arma2psd centring moved onto the AR response and forgotten for the MA response", "sides='centerdc' together with B coefficients"),
 "C07-s1": ("pmodcovar takes the Nyquist index from int(sampling/2./df)", "pmodcovar, real data, unlucky even NFFT / sampling pairs (1.0: 186, 198, 210; 100: 22, 44, 88; 1000: 30, 58, 60)"),
 "C07-s2": ("NFFT setter updates Range.N only while no PSD is stored; the psd setter catches it up", "an object holding a PSD, an NFFT assignment, then df or frequencies() read BEFORE psd"),
 "C07-s3": ("twosided_2_onesided odd-length branch folds without the reversal", "real data, odd NFFT, a sides history entering onesided from twosided/centerdc without recomputation"),
 "C07-t1": ("pburg passes its current sides label to arma2psd when it is centerdc; the psd setter relabels the result as default", "pburg, computed PSD, sides='centerdc', an invalidation other than NFFT, a read"),
 "C07-t2": ("pyule computes the one-sided length as int(sampling/2./df) + 1", "pyule, real data, even non-power-of-two NFFT and a sampling for which the quotient falls just below the integer ((7.0, 100), (0.9, 50), (3.3, 200), (1000, 30))"),
 "C07-t3": ("a diagnostic inside the data setter reads the lazy self.psd while datatype is still the old one", "a computed PSD, then data of the other kind (real <-> complex), then a read"),
})

needs.update({
 "C06-u1": ("plot(sides=t) assigns self.sides = t, plots, assigns the old value back - without try/finally", "PSD computed at sides s, plot(sides=t != s) whose plotting raises (file in a non-existent directory), then continued use"),
 "C06-u2": ("a cached Nyquist-parity flag maintained by the NFFT setter but not by the complex psd setter (which writes NFFT directly)", "complex object, psd assigned with a length of the other parity, data replaced by real data, any conversion from onesided"),
 "C06-u3": ("per-instance table of bound converter methods built in __init__: copy.copy keeps methods bound to the original", "a shallow copy, then sides assignments or a PSD of its own on the copy, then a conversion"),
 "C06-v1": ("arma2psd returns early for norm=True, skipping the sides='centerdc' block", "norm=True together with sides='centerdc' in one call"),
 "C06-v2": ("sides setter wraps the conversion in try/finally: the label and modified=False are set even when the conversion raised", "a sides assignment that raises (complex data asked for onesided, or a failing refresh), then continued use"),
 "C06-v3": ("plot(norm=True) divides the stored PSD by its maximum in place", "plot(norm=True) with sides omitted or equal to the current one, then any read or conversion"),
 "C07-u1": ("arma_estimate allocates its work vector with np.empty: entries Y[MPQ:lag] are never written when ar_order < ma_order", "parma with ar_order < ma_order in a process that has already done numpy work (allocator history)"),
 "C07-u2": ("pburg adds half-LSB dither from the global numpy.random to integer-dtype samples", "pburg, integer-dtype data, two computations or two objects"),
 "C07-u3": ("FourierSpectrum.periodogram() (documented alias) cuts the data to NFFT samples before tapering", "Periodogram, NFFT < N, the explicit computation done with p.periodogram(), then a read"),
 "C07-v1": ("data setter applies detrend at assignment time (subtracts the mean from the stored data)", "detrend='mean' assigned before a data assignment with non-zero mean"),
 "C07-v2": ("pma constructor rejects Q >= M while ma() is relaxed to reject only Q > M", "pma with an order assigned after construction so that ma_order == ar_order"),
 "C07-v3": ("np.empty work vector in arma_estimate (same as C07-u1, other author)", "parma with ar_order < ma_order after at least one earlier parma computation in the process"),
})

needs.update({
 "C06-w1": ("cshift via np.concatenate((data[-offset:], data[:-offset])): offsets no longer wrap modulo the length", "cshift with |offset| > len(data)"),
 "C06-w2": ("datatype decided from the values (isreal(data).all()) instead of the dtype", "data of complex dtype whose imaginary part is identically zero, then a stored or computed two-sided PSD"),
 "C06-w3": ("twosided_2_onesided replaces NaN in the mirrored negative-frequency half by 0 before adding", "a NaN in a negative-frequency bin whose positive partner is finite, passed to the helper"),
 "C06-x1": ("NFFT setter remembers the NFFT of an up-to-date PSD and clears `modified` when NFFT is set back to it, but still resets the sides label on both legs", "computed PSD, non-default sides, NFFT = other, NFFT = original with no read in between"),
 "C06-x2": ("positivity check moved into Range (after it stored N); the NFFT setter updates the range before its own state", "a rejected NFFT <= 0 on a live object, then continued use"),
 "C06-x3": ("get_converted_psd trusts `modified` for a never-computed PSD; the sides setter clears the flag on a cold object", "sides = L before the PSD was ever computed, then get_converted_psd(L) as the first access (evaluated with the C07 check: M06 objects always hold a PSD)"),
 "C07-w1": ("pminvar slices int(round(NFFT/2.)) values for odd NFFT (banker's rounding)", "pminvar, real data, odd NFFT with NFFT % 4 == 1"),
 "C07-w2": ("lag setter looks its old value up under an unmangled name: every lag assignment, also of the same value, invalidates", "parametric estimator, computed PSD, non-default sides, p.lag = p.lag (the needless recomputation resets sides). NOT CLAIMED: the recomputed values are identical and the representation reset is what the pinned tree itself does for p.data = p.data; the check compares re-assignments modulo the documented sides reset"),
 "C07-w3": ("NFFT bound check assert NFFT >= 0: the value 0 is stored and the axis helper then raises ZeroDivisionError", "p.NFFT = 0 on an existing object, the exception caught, the object used again"),
 "C07-x1": ("Range validates sampling (<= 0 rejected) after Spectrum stored its own copy and before modified is set", "p.sampling = a non-positive value on an existing object, then continued use"),
 "C07-x2": ("data setter derives N and datatype from the raw argument before converting it", "a rejected p.data = <tuple> whose length or kind differs from the stored data, then an NFFT assignment or recomputation"),
 "C07-x3": ("plot(sides=...) switches the object's sides temporarily and restores them at the end without try/finally", "plot(sides=<other>) that raises while drawing or saving, then continued use"),
})

needs.update({
 "C06-y1": ("get_converted_psd decides 'has a Nyquist bin' from len(psd) == NFFT//2+1 (true for odd NFFT too)", "real data, odd NFFT, source onesided, target twosided/centerdc; round trips and power still hold, only the comparison with frequencies() shows it"),
 "C06-y2": ("twosided_2_onesided folds into a view of its input (asarray + slice instead of a copy)", "real data, stored sides twosided, get_converted_psd('onesided') (the first answer is right), then any further conversion of the same object"),
 "C06-y3": ("get_converted_psd memoised per target sides; cache cleared in the lazy-recompute branch of the psd getter only", "a conversion to fill the cache, then psd re-assigned (or parameter change + explicit call), then another conversion"),
 "C06-z1": ("onesided_2_twosided halves the interior of the caller's float64 array in place", "float64 one-sided stored PSD, get_converted_psd('twosided'/'centerdc') as a query, then continued use of the object"),
 "C06-z2": ("Range.centerdc_gen starts at -sampling/2 instead of (a - N//2)*df", "odd NFFT and sides centerdc: the axis is shifted by df/2 (no zero entry); even NFFT unaffected"),
 "C06-z3": ("get_converted_psd infers the Nyquist bin from len(psd) % 2 == 1", "real data, one-sided PSD, NFFT mod 4 in {2, 3}, conversion to twosided/centerdc"),
 "C07-y1": ("NFFT setter writes the Range copy before the shared 'must be positive' assertion and the Spectrum copy after it", "a rejected negative integer NFFT on an existing object, then continued use (df, frequencies())"),
 "C07-y2": ("psd getter clears the modified flag before computing", "computed PSD, an assignment that makes __call__ raise, the failed read caught, psd read again with no setter in between"),
 "C07-y3": ("data setter updates Range.N but not the Spectrum copy of NFFT when NFFT equals the old data length", "NFFT equal to len(data) on an existing object, then data of another length assigned"),
 "C07-z1": ("psd getter clears the modified flag before computing (other author; demonstrated by removing the cause through the plain attribute NSIG)", "computed PSD, data assigned, lazy read raising inside __call__, psd read again"),
 "C07-z2": ("run() returns early when a PSD exists and modified is False", "an explicit run() on an already computed object after assigning a class-specific plain attribute (NSIG, threshold, criteria, method, NW), which no listed setter flags"),
 "C07-z3": ("ma_order setter compares the new value with ar_order (copy-paste comparand)", "parma only: ma_order assigned a new value equal to the current ar_order after a PSD was computed"),
})
res = json.load(open('/verif/seeded/RESULTS.json'))
for sid, (mech, need) in needs.items():
    d = '/verif/seeded/' + sid
    r = res.get(sid, {})
    meta = {
      "id": sid, "property": sid.split('-')[0], "evaluated_with_check": res.get(sid, {}).get("property", sid.split('-')[0]),
      "origin": "independent sub-agent given only the property record and a scratch worktree (/tmp/mut/%s)" % sid.lower().replace('-', '_')[:5],
      "mechanism": mech, "needs_to_manifest": need,
      "confirmed_by_me": {
        "pinned_tests_with_change": r.get("tests", "165 passed (see first evaluation)"),
        "demo_exit_with_change": r.get("demo_with_change_exit"),
        "demo_exit_without_change": r.get("demo_without_change_exit"),
        "how": "tools/eval_seeded.py --tests: scratch worktree of /repo HEAD under /var/tmp, git apply patch.diff, pytest test (PYTHONPATH=<wt>/src), demo.py, ./check <property> --tier quick with VERIF_REPO=<wt>, git checkout, demo.py again, worktree removed",
      },
      "check": {"cmd": r.get("check_cmd"), "exit": r.get("check_exit"), "verdict": r.get("verdict"), "clauses": r.get("clauses"),
                 "first_minimised_history": r.get("first_history")},
    }
    old = os.path.join(d, 'meta.json')
    if os.path.exists(old):
        o = json.load(open(old))
        if 'tests' in o.get('confirmed_by_me', {}).get('pinned_tests_with_change', '') and 'tests' not in r:
            meta['confirmed_by_me']['pinned_tests_with_change'] = o['confirmed_by_me']['pinned_tests_with_change']
        if o.get('confirmed_by_me', {}).get('pinned_tests_with_change', '').startswith('165 passed') and 'tests' not in r:
            meta['confirmed_by_me']['pinned_tests_with_change'] = o['confirmed_by_me']['pinned_tests_with_change']
    json.dump(meta, open(old, 'w'), indent=1)
print('ok')
