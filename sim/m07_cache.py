"""M07 -- C07 "the PSD attribute is never stale".

One simulated caller drives one real estimator object through a history of attribute
assignments, explicit computations, lazy reads, side conversions, rejected operations
and injected kernel failures.  The oracle is the statement's own reference: a freshly
constructed object with the attribute values the object reports.
"""
import math
import random

import numpy as np

from . import sut, refmodel
from .common import enc_array, dec_array, arr_digest, log_digest, fnum
from .faults import FaultPlane

PROPERTY = "C07"

WINDOWS = ["bartlett_hann", "blackman_harris", "blackman_nuttall", "bohman", "blackman", "chebwin",
           "gaussian", "hamming", "kaiser", "lanczos", "sinc", "poisson", "tukey", "nuttall", "parzen",
           "flattop", "riesz", "hann", "hanning", "poisson_hanning", "rectangular", "rectangle",
           "bartlett", "triangular", "cosine", "sine", "cauchy", "taylor"]
# 'riemann' is left out: it is NaN at the centre for odd N (an input-domain matter of C20)
ALIASES = {"hann": "hanning", "hanning": "hann", "rectangular": "rectangle", "rectangle": "rectangular",
           "bartlett": "triangular", "triangular": "bartlett", "cosine": "sine", "sine": "cosine",
           "lanczos": "sinc", "sinc": "lanczos"}
SAMPLINGS = [0.5, 1.0, 1.5, 2.0, 2.5, 3, 1000.0, 1024.0, 44100.0]
SIDES = ["onesided", "twosided", "centerdc"]

# ---------------------------------------------------------------------------
# abstract alphabet: (name, core?)  -- core ones form the stratum-A length-3 alphabet
# ---------------------------------------------------------------------------
ALPHABET = [
    ("read", 1), ("call", 1), ("run", 0), ("str", 0), ("power", 0),
    ("conv:onesided", 0), ("conv:twosided", 1), ("conv:centerdc", 1),
    ("sides:onesided", 1), ("sides:twosided", 1), ("sides:centerdc", 1), ("sides:default", 1),
    ("sides:invalid", 0), ("sides:same", 1),
    ("data:newvals", 1), ("data:longer", 1), ("data:shorter", 1), ("data:flip", 1), ("data:same", 1),
    ("data:list", 0), ("data:int", 0), ("data:f32", 0),
    ("NFFT:None", 1), ("NFFT:nextpow2", 0), ("NFFT:eqN", 0), ("NFFT:even_gt", 1), ("NFFT:odd_gt", 1),
    ("NFFT:lt", 1), ("NFFT:invalid", 0), ("NFFT:same", 1), ("NFFT:parity", 0), ("NFFT:double", 1), ("NFFT:half", 0),
    ("sampling:diff", 1), ("sampling:same", 0), ("sampling:double", 1), ("sampling:half", 0),
    ("scale:toggle", 1), ("scale:same", 0), ("scale:invalid", 0),
    ("detrend:toggle", 1), ("detrend:same", 0), ("detrend:invalid", 0),
    ("window:diff", 1), ("window:same", 0), ("window:invalid", 0), ("window:alias", 0),
    ("lag:diff", 1), ("lag:same", 0), ("lag:out", 1), ("lag:any", 0),
    ("ar_order:diff", 1), ("ar_order:same", 0), ("ar_order:neg", 0), ("ar_order:big", 1), ("ar_order:none", 0),
    ("ar_order:zero", 0), ("ma_order:zero", 0), ("data:const", 0), ("data:zimag", 0), ("plot", 0), ("mutate_source", 0), ("copy:shallow", 0), ("copy:deep", 0),
    ("ma_order:eq_ar", 0), ("ar_order:eq_ma", 0), ("alias_periodogram", 0), ("sampling:nonpositive", 0), ("data:tuple", 0), ("plot:fail", 0),
    ("ma_order:diff", 1), ("ma_order:same", 0), ("ma_order:neg", 0), ("ma_order:none", 0),
    ("npscalar:ar_order", 0), ("npscalar:ma_order", 0), ("npscalar:lag", 0), ("npscalar:sampling", 0),
    ("npscalar:scale", 0), ("npscalar:NFFT", 0),
    ("setconst:call", 0), ("setconst:run", 0),
    ("inject:0:before", 1), ("inject:0:after", 0), ("inject:1:before", 1), ("inject:1:after", 0),
    ("inject:2:before", 0), ("inject:2:after", 0), ("inject:3:before", 0),
    ("inject:0:before:LinAlgError", 0), ("inject:0:before:FloatingPointError", 0),
    ("inject:0:before:ZeroDivisionError", 0), ("inject:1:after:LinAlgError", 0), ("inject:0:before:ValueError", 0),
]
ALPHA_NAMES = [a for a, _ in ALPHABET]
CORE_NAMES = [a for a, c in ALPHABET if c]
FAULTY = {"sampling:nonpositive", "data:tuple", "plot:fail", "ma_order:eq_ar", "ar_order:eq_ma", "lag:any", "ar_order:zero", "ma_order:zero", "data:const", "sides:invalid", "NFFT:invalid", "NFFT:lt", "scale:invalid", "detrend:invalid", "window:invalid",
          "lag:out", "ar_order:neg", "ar_order:big", "ma_order:neg", "ma_order:none", "ar_order:none"}
MODES = ("fault_free", "natural", "injected", "mixed")


# class-specific plain attributes (not among the attributes the statement lists, so a lazy read owes them
# nothing) that an EXPLICIT computation must honour: assigned and followed by p() / p.run() in one operation.
# const key -> attribute name, candidate values
SETCONST = {
    "pburg": [("criteria", "criteria", [None, "AIC", "FPE", "MDL", "AICc"])],
    "pmusic": [("NSIG", "NSIG", [1, 2, 3]), ("eig_criteria", "criteria", ["aic", "mdl"]), ("threshold", "threshold", [0.5, 1.0, 2.0])],
    "pev": [("NSIG", "NSIG", [1, 2, 3]), ("eig_criteria", "criteria", ["aic", "mdl"]), ("threshold", "threshold", [0.5, 1.0, 2.0])],
    "MultiTapering": [("method", "method", ["adapt", "unity", "eigen"]), ("NW", "NW", [2.0, 2.5, 3.0])],
}


def applicable(aname, cls):
    head = aname.split(":")[0]
    if head == "alias_periodogram":
        return cls == "Periodogram"
    if head == "setconst":
        return cls in SETCONST
    if head == "npscalar":
        a = aname.split(":")[1]
        return a in ("sampling", "scale", "NFFT") or a in sut.EXTRA_ATTRS[cls]
    if head in ("window", "lag", "ar_order", "ma_order"):
        return head in sut.EXTRA_ATTRS[cls]
    if head == "inject":
        return int(aname.split(":")[1]) < len(sut.KERNELS[cls])
    return True


def allowed_in_mode(aname, mode):
    if aname.startswith("inject"):
        return mode in ("injected", "mixed")
    if aname in FAULTY:
        return mode in ("natural", "mixed")
    return True


# ---------------------------------------------------------------------------
# data generation (python floats from the run's PRNG only)
# ---------------------------------------------------------------------------

def gen_signal(rng, N, cplx, kind=None):
    kind = kind or rng.choice(["noise", "tone", "ar2", "offset", "twotone"])
    def one(n_):
        if kind == "noise":
            return [rng.gauss(0, 1) for _ in range(n_)]
        if kind == "tone":
            f = rng.uniform(0.05, 0.45); ph = rng.uniform(0, 6.28)
            return [math.cos(2 * math.pi * f * i + ph) + 0.1 * rng.gauss(0, 1) for i in range(n_)]
        if kind == "twotone":
            f1 = rng.uniform(0.05, 0.2); f2 = rng.uniform(0.25, 0.45)
            return [math.cos(2 * math.pi * f1 * i) + 0.5 * math.sin(2 * math.pi * f2 * i) + 0.05 * rng.gauss(0, 1)
                    for i in range(n_)]
        if kind == "offset":
            c = rng.uniform(-5, 5)
            return [c + rng.gauss(0, 1) for _ in range(n_)]
        x = [rng.gauss(0, 1), rng.gauss(0, 1)]
        for i in range(2, n_):
            x.append(1.2 * x[-1] - 0.7 * x[-2] + rng.gauss(0, 1))
        return x
    re = one(N)
    if cplx:
        im = one(N)
        return np.array([complex(a, b) for a, b in zip(re, im)], dtype=complex)
    return np.array(re, dtype=float)


def enc_data(arr, container="ndarray"):
    d = enc_array(arr)
    d["c"] = container
    return d


def dec_data(d):
    a = dec_array(d)
    if d.get("c") == "list":
        return a.tolist()
    if d.get("c") == "tuple":
        return tuple(a.tolist())
    if d.get("c") == "f32":
        return a.astype(np.complex64 if np.iscomplexobj(a) else np.float32)
    return a


# ---------------------------------------------------------------------------
# run configuration
# ---------------------------------------------------------------------------

def gen_const(rng, cls, N):
    c = {}
    if cls == "pburg":
        c["criteria"] = rng.choice([None, None, None, "AIC", "FPE", "AICc", "KIC", "AKICc", "MDL"])
    elif cls == "pyule":
        c["norm"] = rng.choice(["biased", "biased", "unbiased"])
    elif cls in ("pmusic", "pev"):
        r = rng.random()
        if r < 0.6:
            c["NSIG"] = rng.choice([1, 2, 2, 3])
        elif r < 0.8:
            c["eig_criteria"] = rng.choice(["aic", "mdl"])
        else:
            c["threshold"] = rng.choice([0.5, 1.0, 2.0])
    elif cls == "MultiTapering":
        c["NW"] = rng.choice([2.0, 2.5, 3.0])
        c["k"] = rng.choice([None, None, 3, 4])
        c["method"] = rng.choice(["adapt", "unity", "eigen"])
        if rng.random() < 0.3:
            # tapers and eigenvalues supplied by the caller (computed once with the package's own dpss)
            try:
                sp = sut.load()
                k = c["k"] or int(2 * c["NW"])
                v, e = sp.mtm.dpss(N, c["NW"], k)
                c["e"] = [float(x) for x in np.asarray(e).ravel()]
                c["v"] = [[float(x) for x in row] for row in np.asarray(v)]
            except Exception:
                pass
    elif cls == "pcorrelogram":
        if rng.random() < 0.25:
            c["data_y"] = enc_data(gen_signal(rng, N, rng.random() < 0.5))
    return c


def gen_init(rng, cls, N, cplx, mode):
    init = {
        "NFFT": rng.choice([None, None, "nextpow2", N, N + 1, 2 * N, 2 * N + 1, N + rng.randrange(0, 40)]),
        "sampling": rng.choice(SAMPLINGS),
        "scale_by_freq": rng.choice([False, True]),
        "detrend": rng.choice([None, None, "mean"]) if cls in sut.FOURIER else None,
    }
    if cls in sut.FOURIER:
        init["window"] = rng.choice(WINDOWS)
        init["lag"] = rng.randrange(1, max(2, min(N - 1, 8))) if cls == "pcorrelogram" else -1
        if cls == "pcorrelogram":
            # keep the initial configuration computable: NFFT >= 2*lag+1, and even for real data
            nf = max(N, 2 * init["lag"] + 2)
            init["NFFT"] = rng.choice([nf + (nf % 2), 2 * nf, nf + (nf % 2) + 2 * rng.randrange(0, 10)])
            if cplx and rng.random() < 0.4:
                init["NFFT"] += 1
    if cls in sut.PARAMETRIC:
        init["ar_order"] = rng.randrange(1, 7)
        init["ma_order"] = None
        init["lag"] = -1
        if cls == "parma":
            init["ar_order"] = rng.randrange(1, 4)
            init["ma_order"] = rng.randrange(1, 4)
            init["lag"] = init["ar_order"] + init["ma_order"] + rng.randrange(1, 6)
        if cls == "pma":
            init["ma_order"] = rng.randrange(1, 5)
            init["ar_order"] = init["ma_order"] + rng.randrange(1, 6)
        if cls in ("pmusic", "pev"):
            init["ar_order"] = rng.randrange(4, 9)
    return init


def gen_cfg(rng, cls=None, cplx=None, N=None, mode=None):
    cls = cls or rng.choice(sut.CLASS_NAMES)
    cplx = rng.random() < 0.5 if cplx is None else cplx
    if N is None:
        N = rng.choice([rng.randrange(12, 49), rng.randrange(12, 49), rng.randrange(16, 25), rng.randrange(48, 129)])
    mode = mode or rng.choice(MODES)
    data = gen_signal(rng, N, cplx)
    return {
        "_grng": rng.getrandbits(32),
        "cls": cls, "cplx": bool(cplx), "N": N, "mode": mode,
        "data": enc_data(data),
        "init": gen_init(rng, cls, N, cplx, mode),
        "const": gen_const(rng, cls, N),
    }


def initial_snapshot(cfg):
    s = dict(cfg["init"])
    s["data"] = dec_data(cfg["data"])
    s["sides"] = None
    return s


# ---------------------------------------------------------------------------
# the run
# ---------------------------------------------------------------------------

def seed_global_rngs(cfg):
    """The process-global generators (numpy.random, random) are a source of nondeterminism the code under test
    may draw from even though the pinned tree does not: they are seeded from the run's configuration, so that
    a run - and its replay in another process - is a pure function of its seed whatever the code does."""
    g = int(cfg.get("_grng", 0)) & 0xFFFFFFFF
    np.random.seed(g)
    random.seed(g)


class Violation(Exception):
    def __init__(self, clause, step, detail):
        Exception.__init__(self, "%s at step %d: %s" % (clause, step, detail))
        self.clause = clause
        self.step = step
        self.detail = detail


class Run(object):
    """Executes concrete operations against one object and checks the clauses."""

    def __init__(self, cfg, pristine=None, defer=False, install_plane=True):
        self.cfg = cfg
        seed_global_rngs(cfg)
        self.defer = defer          # evaluate references at the end of the run (multi-object runs)
        self.pending = []
        self.cls = cfg["cls"]
        self.const = cfg["const"]
        self.pristine = pristine
        self.ops = []
        self.log = []
        self.stats = {}
        self.states = set()
        self.transitions = set()
        self.violation = None
        self.last_psd = None       # value of the last successful psd read while nothing else happened since
        self.reassigned = []       # attributes re-assigned since that read
        self.last_sides = None
        self.checked_reads = 0
        self.nontrivial = False
        self.dirty = False         # a state-changing op or a fired fault since the previous checked read
        self.after_failed_read = False
        self.abandoned = False     # set when a `setconst` computation raised: later steps are not applied
        self.has_psd = False       # a computation has succeeded on this object (harness-side knowledge)
        self.sides_expect = None
        self.plane = FaultPlane(self.cls)
        if install_plane:
            self.plane.install()
        self.init_error = None
        self.p = None
        try:
            self.p = sut.construct(self.cls, initial_snapshot(cfg), self.const)
        except Exception as e:
            self.init_error = type(e).__name__
        if self.plane.missing:
            self.bump("probe:kernel_seam_missing")
        # what the caller assigned and the library accepted.  Constructor arguments other than the data are
        # not tracked: the statement is about attribute assignments (and the pinned constructor silently
        # drops its `detrend` argument, which is not a staleness matter).
        self.assigned = {}
        if self.p is not None:
            self.assigned["data"] = np.array(dec_data(cfg["data"]))

    def close(self):
        self.plane.remove()

    # -- bookkeeping -----------------------------------------------------
    def bump(self, key, n=1):
        self.stats[key] = self.stats.get(key, 0) + n

    def abstate(self):
        p = self.p
        try:
            nfft = p.NFFT
            cache = "empty" if getattr(p, "_Spectrum__psd", None) is None else (
                "pending" if getattr(p, "modified", None) else "valid")
            return (self.cls, p.datatype, nfft % 2, (nfft > p.N) - (nfft < p.N), p.sides, cache,
                    bool(p.scale_by_freq))
        except Exception:
            return (self.cls, "?", 0, 0, "?", "?", False)

    # -- applying one concrete op ---------------------------------------
    def _apply(self, op):
        p = self.p
        k = op["op"]
        if k == "read":
            return p.psd
        if k == "call":
            p()
            return None
        if k == "run":
            p.run()
            return None
        if k == "alias_periodogram":
            p.periodogram()
            return None
        if k == "setconst":
            setattr(p, op["attr"], op["value"])
            self.const = dict(self.const, **{op["key"]: op["value"]})
            try:
                if op["how"] == "call":
                    p()
                else:
                    p.run()
            except Exception:
                # the statement does not say what the object holds after an explicit computation failed
                # half way with a non-listed attribute changed: the run ends here (no later step is applied)
                self.abandoned = True
                raise
            return None
        if k == "conv":
            return p.get_converted_psd("".join(list(op["sides"])))
        if k == "power":
            return p.power()
        if k == "str":
            return str(p)
        if k == "plot":
            import pylab
            try:
                kw = {"filename": "/nonexistent-directory-for-verif/x.png"} if op.get("fail") else {}
                p.plot(norm=op.get("norm", False), sides=op.get("sides"), **kw)
            finally:
                pylab.close("all")
            return None
        if k == "copy":
            # the caller continues with a copy (shallow or deep) of the object: an object in its own right
            import copy as _copy
            self.p = (_copy.deepcopy if op.get("deep") else _copy.copy)(p)
            return None
        if k == "mutate_source":
            src = getattr(self, "last_source", None)
            if isinstance(src, np.ndarray):
                new = dec_data(op["value"])
                if len(new) == len(src):
                    src[...] = new.astype(src.dtype) if np.iscomplexobj(src) or not np.iscomplexobj(new) else new.real
            return None
        if k == "set":
            v = op["value"]
            if op["attr"] == "data":
                v = dec_data(v)
                self.last_source = v if isinstance(v, np.ndarray) else None
            elif isinstance(v, dict) and "np" in v:
                v = getattr(np, v["np"])(v["v"])      # numpy scalar (np.int64(4), np.float64(2.0), np.bool_(True))
            elif isinstance(v, str):
                v = "".join(list(v))                  # a run-time string, not an interned literal
            setattr(p, op["attr"], v)
            return None
        if k == "reassign":
            setattr(p, op["attr"], getattr(p, op["attr"]))
            return None
        if k == "inject":
            self.plane.arm(op["kernel"], op["when"], op.get("exc", "MemoryError"))
            return None
        raise KeyError(k)

    def _reference(self, snap, query, want_pristine):
        # the class-specific constants as they were when the read happened (deferred references are
        # evaluated at the end of the run, after `setconst` operations may have changed them)
        const = snap.get("_const", self.const)
        snap = {k: v for k, v in snap.items() if k != "_const"}
        with self.plane.oracle():
            ref = refmodel.reference_eval(self.cls, snap, const, query)
        pref = None
        if want_pristine and self.pristine is not None:
            pref = self.pristine.eval(self.cls, snap, const, query)
            if pref[0] == "harness":
                raise RuntimeError("pristine reference failed: %s" % pref[1])
            self.bump("pristine_refs")
        return ref, pref

    def step(self, op, aname=None, want_pristine=False, idx=None):
        """Apply one op; returns None or a Violation (first violation ends the run)."""
        p = self.p
        if idx is None:
            idx = len(self.ops)
        if self.abandoned:
            self.bump("steps_skipped_after_abandon")
            return None
        self.ops.append(op)
        k = op["op"]
        pre_state = self.abstate()
        fired0 = self.plane.fired
        calls0 = self.plane.calls[0]
        up_to_date_before = self.last_psd is not None and not self.reassigned and self.last_sides is not None
        sides_before = self.last_sides
        before_attr = None
        if k == "set" and op["attr"] != "sides":
            try:
                before_attr = getattr(p, op["attr"])
                if op["attr"] == "data":
                    before_attr = np.array(before_attr)
            except Exception:
                before_attr = None
        try:
            val = self._apply(op)
            outcome = "ok"
            exc = None
        except Exception as e:
            val = None
            exc = e
            outcome = "raised:" + type(e).__name__
        p = self.p                      # a `copy` operation replaces the object the caller goes on with
        fired = self.plane.fired - fired0
        recomputed = self.plane.calls[0] - calls0
        self.bump("op:%s:%s" % (k if k not in ("set", "reassign") else k + ":" + op["attr"],
                               "ok" if exc is None else "raised"))
        if exc is not None:
            self.bump("exc:" + type(exc).__name__)
        entry = {"i": idx, "op": op if k != "set" or op["attr"] != "data" else
                 {"op": "set", "attr": "data", "digest": arr_digest(dec_array(op["value"])), "c": op["value"].get("c")},
                 "out": outcome}
        viol = None

        if fired:
            self.bump("fault:F4:fired", fired)
            self.bump("fault:F4:site:%s:%s:%s" % (self.cls, k if k != "set" else "set:" + op["attr"],
                                                 self.plane.fired_sites[-1][0]))
            self.dirty = True
            if exc is None:
                # Not a violation in itself: the statement does not say where a failing computation must
                # surface (str(p) documents that it swallows it).  What matters is that no later read
                # serves a wrong value, which the read clauses decide.  Counted for the evidence.
                self.bump("fault:F4:swallowed_by_operation")
        elif exc is not None and k in ("set", "reassign"):
            self.bump("fault:F1:rejected_assignment" if recomputed == 0 else "fault:F3:failure_inside_setter")
        elif exc is not None and k in ("read", "call", "run", "conv", "power"):
            self.bump("fault:F2:failed_computation")

        if k == "reassign" and exc is None and not fired:
            self.reassigned.append(op["attr"])
        elif k in ("str", "power", "conv", "plot", "mutate_source", "copy") and exc is None and not fired:
            pass                      # observations (or the caller touching its own buffer): keep the remembered psd
        elif k != "read":
            self.last_psd = None
            self.reassigned = []
        if k in ("set", "call", "run", "alias_periodogram", "setconst") or fired:
            self.dirty = True

        # ---- checked reads --------------------------------------------
        if viol is None and k in ("read", "conv", "power") and not fired:
            snap = sut.snapshot(self.cls, p)
            snap["_const"] = self.const
            query = {"kind": "psd"} if k == "read" else (
                {"kind": "conv", "sides": op["sides"]} if k == "conv" else {"kind": "power"})
            self.checked_reads += 1
            self.bump("reads_checked")
            if self.dirty:
                self.nontrivial = True
            self.dirty = False
            if recomputed:
                self.bump("read:recomputed")
            elif exc is None:
                self.bump("read:cache_hit")
            if self.after_failed_read and exc is None:
                self.bump("probe:failed_read_then_successful_read")
            self.after_failed_read = exc is not None
            rec = (idx, k, op, exc, None if exc is not None else np.array(val, copy=True), snap, query, want_pristine)
            if self.defer:
                self.pending.append(rec)
            else:
                viol = self._check_against_reference(rec)
            if viol is None and exc is None and k == "read":
                v = np.asarray(val)
                entry["psd"] = arr_digest(v)
                try:
                    flen = len(p.frequencies())
                except Exception as e:
                    flen = "raised:" + type(e).__name__
                if flen != len(v):
                    viol = Violation("freq_len", idx, "len(frequencies())=%s but len(psd)=%d (sides=%s NFFT=%s)" % (
                        flen, len(v), p.sides, p.NFFT))
                if viol is None and self.last_psd is not None and self.reassigned:
                    viol = self._check_reassign(idx, v, p)
                self.last_psd = v.copy()
                self.last_sides = (p.sides, p.NFFT)
                self.reassigned = []
            elif k == "read":
                self.last_psd = None
                self.reassigned = []

        # ---- an observation (plot, str, power, get_converted_psd) of an up-to-date object changes nothing:
        #      right after a successful psd read, with nothing but observations since, `sides` stays put
        if viol is None and k in ("plot", "str", "power", "conv") and not fired and up_to_date_before:
            self.bump("observation_purity_checked")
            try:
                now = (p.sides, p.NFFT)
            except Exception:
                now = None
            if now != sides_before:
                viol = Violation("pure_accessor", idx, "%s%s on an up-to-date object changed (sides, NFFT) from %r to %r"
                                 % (describe({"cls": self.cls, "cplx": False, "data": {"v": []}, "init": {}, "const": {}}, [op]).split(" :: ")[1],
                                    " (which raised %s)" % type(exc).__name__ if exc is not None else "", sides_before, now))

        # ---- a rejected assignment is a no-op on the attribute it was meant for -------------------
        if viol is None and k == "set" and exc is not None and not fired and recomputed == 0 \
                and op["attr"] != "sides" and before_attr is not None:
            try:
                after_attr = getattr(p, op["attr"])
                same = (np.array_equal(np.asarray(after_attr), before_attr) if op["attr"] == "data"
                        else after_attr == before_attr)
            except Exception:
                same = False
            self.bump("reject_clean_checked")
            if not same:
                viol = Violation("reject_clean", idx, "the assignment %s=%r was rejected (%s) but the object now "
                                 "reports %r instead of %r" % (op["attr"], op["value"] if op["attr"] != "data" else "<data>",
                                                               type(exc).__name__, after_attr if op["attr"] != "data" else "<data>",
                                                               before_attr if op["attr"] != "data" else "<data>"))

        # ---- sides assigned on an object that holds a PSD, directly followed by a read: the read returns
        #      that representation (the label must not flip back under the reader's feet) ---------------
        if k == "set" and op["attr"] == "sides" and exc is None and self.has_psd:
            v_ = op["value"]
            self.sides_expect = (("twosided" if p.datatype == "complex" else "onesided") if v_ == "default" else v_)
            if self.sides_expect == "onesided" and p.datatype == "complex":
                self.sides_expect = None       # undefined representation: nothing is demanded of it
        elif k == "read" and exc is None and not fired and self.sides_expect is not None:
            self.bump("sides_sticks_checked")
            if viol is None and p.sides != self.sides_expect:
                viol = Violation("sides_sticks", idx, "sides was assigned %r on an object holding a PSD and psd was read "
                                 "next, but the read left sides=%r (the requested representation was dropped)"
                                 % (self.sides_expect, p.sides))
            self.sides_expect = None
        else:
            self.sides_expect = None
        if k in ("read", "call", "run", "conv", "power", "alias_periodogram") and exc is None and not fired:
            self.has_psd = True

        # ---- NFFT given as None / 'nextpow2' resolves against the CURRENT data, as it does in a constructor
        if viol is None and k == "set" and exc is None and op["attr"] == "NFFT" and op["value"] in (None, "nextpow2"):
            try:
                with self.plane.oracle():
                    want = sut.load().Spectrum(np.array(p.data), NFFT=op["value"]).NFFT
            except Exception:
                want = None
            self.bump("nfft_alias_checked")
            if want is not None and p.NFFT != want:
                viol = Violation("nfft_alias", idx, "NFFT=%r was accepted and resolved to %r; a fresh object given the same "
                                 "data and NFFT=%r reports %r" % (op["value"], p.NFFT, op["value"], want))

        # ---- an accepted assignment sticks: the object never rewrites an attribute by itself -----
        if k == "set" and exc is None and op["attr"] != "sides":
            # the expectation is what the object reports right after it accepted the assignment, so that
            # normalisation at assignment time (list -> array, alias -> canonical name, None -> derived
            # NFFT) is never mistaken for drift
            a = op["attr"]
            try:
                if a == "data":
                    # for the data the expectation is what the caller assigned: same shape, same values and the
                    # same real/complex kind (container and float width may be normalised, the numbers may not)
                    self.assigned[a] = np.array(dec_data(op["value"]))
                else:
                    self.assigned[a] = getattr(p, a)
            except Exception:
                self.assigned.pop(a, None)
        if viol is None:
            viol = self._check_drift(idx)

        # ---- df invariant after every operation --------------------------
        if viol is None:
            try:
                df, fs, nfft = p.df, p.sampling, p.NFFT
                ok = abs(df - fs / float(nfft)) <= 1e-12 * abs(fs / float(nfft))
                entry["df"] = fnum(df)
            except Exception as e:
                ok = False
                df, fs, nfft = "raised:" + type(e).__name__, None, None
            if not ok:
                viol = Violation("df", idx, "df=%r but sampling/NFFT=%r/%r" % (df, fs, nfft))
        post_state = self.abstate()
        self.states.add(post_state)
        self.transitions.add((pre_state, aname or k, outcome.split(":")[0], post_state[5]))
        entry["state"] = list(post_state[1:])
        self.log.append(entry)
        self._probes(op, exc, pre_state, post_state, recomputed)
        if viol is not None:
            self.violation = viol
        return viol

    def _check_drift(self, idx):
        """`attr_drift`: "the same final attribute values" are the values the caller assigned.  An object
        that overwrites one of them behind the caller's back (e.g. a kernel working in place on the stored
        data) would make the reference, which is built from what the object reports, wrong in the same way."""
        p = self.p
        for a in sorted(self.assigned):
            want = self.assigned[a]
            try:
                got = getattr(p, a)
            except Exception as e:
                return Violation("attr_drift", idx, "reading %s raised %s" % (a, type(e).__name__))
            if a == "data":
                g = np.asarray(got)
                same = g.shape == want.shape and np.iscomplexobj(g) == np.iscomplexobj(want) and bool(
                    np.all((g == want) | ((g != g) & (want != want))))
            else:
                same = got == want
            if not same:
                return Violation("attr_drift", idx, "%s was assigned %s but the object now reports %s" % (
                    a, "<%d values>" % len(want) if a == "data" else repr(want),
                    "different values" if a == "data" else repr(got)))
        return None

    def _check_against_reference(self, rec):
        idx, k, op, exc, val, snap, query, want_pristine = rec
        ref, pref = self._reference(snap, query, want_pristine)
        viol = self._compare(idx, k, op, exc, val, ref, "fresh object (same process)")
        if viol is None and pref is not None:
            viol = self._compare(idx, k, op, exc, val, pref, "fresh object (pristine process)")
            if viol is not None:
                viol.clause = "hidden_state:" + viol.clause
        return viol

    def finalize(self):
        """Deferred mode: evaluate the references of all recorded reads, in order."""
        pend, self.pending = self.pending, []
        for rec in pend:
            v = self._check_against_reference(rec)
            if v is not None:
                self.violation = v
                return v
        return None

    def _check_reassign(self, idx, v, p):
        """Re-assigning unchanged values must not alter the result.  The library documents that a
        recomputation resets `sides` to the default, so when the reported representation changed the
        comparison is made in the new representation (converted by the reference model), otherwise the
        two reads must be bit-identical."""
        old = self.last_psd
        old_sides, old_nfft = self.last_sides
        if (p.sides, p.NFFT) == (old_sides, old_nfft):
            self.bump("reassign_checked:bit_identity")
            if not (v.shape == old.shape and v.dtype == old.dtype and v.tobytes() == old.tobytes()):
                return Violation("reassign", idx, "psd changed after re-assigning %s their current values"
                                 % (self.reassigned,))
            return None
        if p.NFFT != old_nfft or np.iscomplexobj(old) or np.iscomplexobj(v):
            self.bump("reassign_checked:skipped_representation_changed")
            return None
        self.bump("reassign_checked:converted")
        try:
            T = refmodel.canonical_from(old, old_sides, old_nfft)
            w = refmodel.render(T, p.sides)
        except AssertionError:
            return None
        if not refmodel.values_agree(v, w):
            return Violation("reassign", idx, "psd changed (beyond its representation %s -> %s) after re-assigning "
                             "%s their current values" % (old_sides, p.sides, self.reassigned))
        return None

    def _compare(self, idx, k, op, exc, val, ref, who):
        what = {"read": "psd", "conv": "get_converted_psd(%r)" % op.get("sides"), "power": "power()"}[k]
        if exc is not None and ref[0] == "ok":
            return Violation("raise_mismatch", idx, "%s raised %s but a %s computes it" % (what, type(exc).__name__, who))
        if exc is None and ref[0] == "raised":
            return Violation("raise_mismatch", idx, "%s returned a value but a %s raises %s" % (what, who, ref[1]))
        if exc is None:
            v = np.asarray(val)
            w = ref[1]
            if not refmodel.values_agree(v, w):
                if v.shape != w.shape:
                    d = "shape %s vs %s" % (v.shape, w.shape)
                else:
                    with np.errstate(all="ignore"):
                        d = "max rel diff %.3g" % float(np.nanmax(np.abs(v - w)) / (np.nanmax(np.abs(w)) or 1.0))
                return Violation("stale_psd" if k != "conv" else "stale_conv", idx, "%s differs from a %s with the same attribute values: %s" % (what, who, d))
        return None

    def _probes(self, op, exc, pre, post, recomputed):
        k = op["op"]
        if k == "set" and op["attr"] == "data" and exc is None and pre[1] != post[1] and pre[4] not in ("onesided", "twosided"):
            self.bump("probe:type_flip_while_nondefault_sides")
        if post[3] < 0:
            self.bump("probe:NFFT_lt_N")
        if post[1] == "real" and post[2] == 1:
            self.bump("probe:odd_NFFT_real")
        if k == "set" and op["attr"] == "sides" and recomputed:
            self.bump("probe:recompute_inside_sides_setter")
        if k == "conv" and recomputed:
            self.bump("probe:recompute_inside_get_converted")
        if k == "set" and exc is not None:
            self._rejected_last = True
        elif k == "read":
            if getattr(self, "_rejected_last", False):
                self.bump("probe:rejected_assignment_then_read")
            self._rejected_last = False
        else:
            self._rejected_last = False
        if k == "set" and op["attr"] == "sides" and exc is None and pre[5] == "pending":
            self.bump("probe:sides_assigned_while_invalidation_pending")

    def digest(self):
        return log_digest(self.log)


# ---------------------------------------------------------------------------
# concretisation of abstract ops against the current object state
# ---------------------------------------------------------------------------

def concretize(aname, rng, run):
    """abstract name -> concrete op (JSON-able) or None when not applicable right now."""
    p = run.p
    cls = run.cls
    parts = aname.split(":")
    head = parts[0]
    if not applicable(aname, cls):
        return None
    if head in ("read", "call", "run", "str", "power"):
        return {"op": head}
    if head == "copy":
        return {"op": "copy", "deep": parts[1] == "deep"}
    if head == "setconst":
        cands = []
        for key, attr, values in SETCONST[cls]:
            if key in ("NSIG", "eig_criteria", "threshold") and run.const.get(key) is None:
                continue            # the three ways of sizing the signal subspace exclude one another: keep the run's
            if key == "NW" and run.const.get("e") is not None:
                continue            # tapers supplied by the caller: NW is not used
            cur = run.const.get(key, {"norm": "biased", "method": "adapt"}.get(key))
            cands += [(key, attr, v) for v in values if v != cur]
        if not cands:
            return None
        key, attr, v = rng.choice(cands)
        return {"op": "setconst", "key": key, "attr": attr, "value": v, "how": parts[1]}
    if head == "alias_periodogram":
        # FourierSpectrum.periodogram(), documented as an alias of Periodogram: a third explicit computation.
        # Only while scale_by_freq is False: with True the pinned __call__ scales twice and the alias once (a
        # normalisation defect of C08's territory, section 9), so the two legitimately-by-the-code differ.
        if p.scale_by_freq is not False:
            return None
        return {"op": "alias_periodogram"}
    if head == "mutate_source":
        # the caller re-uses the buffer it handed to `data` earlier (fills it with other numbers, in place)
        src = getattr(run, "last_source", None)
        if src is None:
            return None
        return {"op": "mutate_source", "value": enc_data(gen_signal(rng, len(src), bool(np.iscomplexobj(src))))}
    if head == "plot":
        op = {"op": "plot", "norm": rng.random() < 0.5, "sides": rng.choice([None, None, "twosided", "centerdc", "onesided"])}
        if len(parts) > 1 and parts[1] == "fail":
            op["fail"] = True           # a file name in a directory that does not exist: the plot raises at the end
        return op
    if head == "conv":
        return {"op": "conv", "sides": parts[1]}
    if head == "inject":
        op = {"op": "inject", "kernel": int(parts[1]), "when": parts[2]}
        if len(parts) > 3:
            op["exc"] = parts[3]
        elif rng.random() < 0.3 and run.cfg.get("mode") in ("injected", "mixed") and len(run.ops) > 0:
            op["exc"] = rng.choice(["LinAlgError", "FloatingPointError", "ZeroDivisionError", "OverflowError", "ValueError"])
        return op
    vc = parts[1]
    if head == "npscalar":
        # the same kind of value an in-domain assignment would use, but as a numpy scalar
        base = {"ar_order": "ar_order:diff", "ma_order": "ma_order:diff", "lag": "lag:diff", "sampling": "sampling:diff",
                "scale": "scale:toggle", "NFFT": "NFFT:even_gt"}[vc]
        op = concretize(base, rng, run)
        if op is None or op["value"] is None:
            return None
        v = op["value"]
        if isinstance(v, bool):
            op["value"] = {"np": "bool_", "v": v}
        elif isinstance(v, int):
            op["value"] = {"np": "int64", "v": v}
        else:
            op["value"] = {"np": "float64", "v": float(v)}
        return op
    if vc == "same":
        attr = {"scale": "scale_by_freq"}.get(head, head)
        return {"op": "reassign", "attr": attr}
    N = p.N
    cplx = p.datatype == "complex"
    if head == "sides":
        if vc == "invalid":
            return {"op": "set", "attr": "sides", "value": rng.choice(["both", "one-sided", "", "center"])}
        return {"op": "set", "attr": "sides", "value": vc}
    if head == "data":
        if vc == "newvals":
            arr = gen_signal(rng, N, cplx)
        elif vc == "longer":
            arr = gen_signal(rng, N + rng.choice([1, 2, 5, 16, N]), cplx)
        elif vc == "shorter":
            arr = gen_signal(rng, max(4, N - rng.choice([1, 2, 5, N // 2])), cplx)
        elif vc == "flip":
            arr = gen_signal(rng, N + rng.choice([0, 0, 1]), not cplx)
        elif vc == "list":
            return {"op": "set", "attr": "data", "value": enc_data(gen_signal(rng, N, cplx), "list")}
        elif vc == "tuple":
            # a container the pinned data setter rejects (tuples have no .copy()); length and kind differ from the
            # stored data so that a half-applied rejection shows
            return {"op": "set", "attr": "data", "value": enc_data(gen_signal(rng, N + rng.choice([3, 7, -3]), not cplx), "tuple")}
        elif vc == "zimag":
            arr = gen_signal(rng, N, False).astype(complex)   # complex dtype, imaginary part identically zero
        elif vc == "const":
            c = rng.choice([1.0, 0.0, -2.5])
            arr = np.full(N, c + 0j if cplx else c)     # degenerate signal: most estimators cannot fit it
        elif vc == "f32":
            return {"op": "set", "attr": "data", "value": enc_data(gen_signal(rng, N, cplx), "f32")}
        elif vc == "int":
            arr = np.array([rng.randrange(-9, 10) for _ in range(N)], dtype=np.int64)
            if cplx:
                arr = arr + 1j * np.array([rng.randrange(-9, 10) for _ in range(N)])
        else:
            raise KeyError(aname)
        return {"op": "set", "attr": "data", "value": enc_data(arr)}
    if head == "NFFT":
        cur = p.NFFT
        if vc == "None":
            v = None
        elif vc == "nextpow2":
            v = "nextpow2"
        elif vc == "eqN":
            v = N
        elif vc == "even_gt":
            v = N + rng.randrange(1, 40)
            v += v % 2
            if rng.random() < 0.03:
                v = rng.choice([256, 512, 1024, 4096])
        elif vc == "odd_gt":
            v = N + rng.randrange(1, 40)
            v += 1 - v % 2
            if rng.random() < 0.03:
                v = rng.choice([255, 513, 1025, 4097])
        elif vc == "lt":
            v = rng.randrange(1, max(2, N))
        elif vc == "parity":
            v = cur + 1
        elif vc == "double":
            v = 2 * cur                 # together with sampling:double this leaves df bit-identical
        elif vc == "half":
            v = max(1, cur // 2)
        elif vc == "invalid":
            v = rng.choice([0, -1, 2.5, "x", -16])
        else:
            raise KeyError(aname)
        return {"op": "set", "attr": "NFFT", "value": v}
    if head == "sampling":
        cur = p.sampling
        if vc == "nonpositive":
            # negative only: with 0 the pinned __call__ stores the PSD and then fails inside scale() (2*pi/df),
            # i.e. the exception atomicity inside __call__ that section 4.3 deliberately does not demand
            return {"op": "set", "attr": "sampling", "value": rng.choice([-1.0, -2, -0.5])}
        if vc == "double":
            return {"op": "set", "attr": "sampling", "value": cur * 2}
        if vc == "half":
            return {"op": "set", "attr": "sampling", "value": cur / 2.0}
        return {"op": "set", "attr": "sampling", "value": rng.choice([s for s in SAMPLINGS if s != cur])}
    if head == "scale":
        if vc == "invalid":
            return {"op": "set", "attr": "scale_by_freq", "value": rng.choice(["yes", 2, "True"])}
        return {"op": "set", "attr": "scale_by_freq", "value": not p.scale_by_freq}
    if head == "detrend":
        if vc == "invalid":
            return {"op": "set", "attr": "detrend", "value": rng.choice(["linear", "long-mean", "Mean"])}
        return {"op": "set", "attr": "detrend", "value": None if p.detrend == "mean" else "mean"}
    if head == "window":
        cur = p.window
        if vc == "invalid":
            return {"op": "set", "attr": "window", "value": rng.choice(["nonsense", "Hann", ""])}
        if vc == "alias":
            if cur not in ALIASES:
                return None
            return {"op": "set", "attr": "window", "value": ALIASES[cur]}
        return {"op": "set", "attr": "window", "value": rng.choice([w for w in WINDOWS if w != cur])}
    if head == "lag":
        cur = p.lag
        if vc == "out":
            return {"op": "set", "attr": "lag", "value": N + rng.randrange(0, 4)}
        if vc == "any":
            return {"op": "set", "attr": "lag", "value": rng.randrange(1, max(2, N))}   # may exceed what NFFT can hold
        if cls == "parma":
            lo = (p.ar_order or 0) + (p.ma_order or 0) + 1
            cands = [v for v in range(lo, max(lo + 2, min(N - 1, lo + 12))) if v != cur]
        else:
            hi = max(2, min(N - 1, (p.NFFT - 1) // 2))
            cands = [v for v in range(1, hi + 1) if v != cur]
        if not cands:
            return None
        return {"op": "set", "attr": "lag", "value": rng.choice(cands)}
    if head in ("ar_order", "ma_order"):
        cur = getattr(p, head)
        if vc == "zero":
            return {"op": "set", "attr": head, "value": 0}
        if vc in ("eq_ar", "eq_ma"):
            other = p.ar_order if head == "ma_order" else p.ma_order
            if other is None:
                return None
            return {"op": "set", "attr": head, "value": other}
        if vc == "neg":
            return {"op": "set", "attr": head, "value": -rng.randrange(1, 4)}
        if vc == "none":
            return {"op": "set", "attr": head, "value": None}
        if vc == "big":
            return {"op": "set", "attr": head, "value": N + rng.randrange(0, 6)}
        lo, hi = 1, 8
        if cls in ("pmusic", "pev"):
            lo, hi = 3, 10
        if cls == "pma" and head == "ar_order":
            lo, hi = (p.ma_order or 1) + 1, (p.ma_order or 1) + 8
        if cls == "pma" and head == "ma_order":
            lo, hi = 1, max(2, (p.ar_order or 2) - 1)
        if cls == "parma":
            lo, hi = 1, 4
        cands = [v for v in range(lo, hi + 1) if v != cur]
        if not cands:
            return None
        return {"op": "set", "attr": head, "value": rng.choice(cands)}
    raise KeyError(aname)


# ---------------------------------------------------------------------------
# history generation
# ---------------------------------------------------------------------------

def swarm_weights(rng, cls, mode):
    """Per-run random subset and weights of abstract operations."""
    names = [a for a in ALPHA_NAMES if applicable(a, cls) and allowed_in_mode(a, mode) and a != "read"]
    groups = {}
    for a in names:
        groups.setdefault(a.split(":")[0], []).append(a)
    heads = sorted(groups)
    # keep a random subset of groups (at least three)
    keep = [h for h in heads if rng.random() < 0.7]
    while len(keep) < 3:
        h = rng.choice(heads)
        if h not in keep:
            keep.append(h)
    w = {}
    for h in sorted(keep):
        gw = rng.choice([0.5, 1.0, 1.0, 2.0, 4.0])
        if h == "inject":
            gw = rng.choice([1.0, 2.0, 3.0])
        if h == "sides":
            gw *= 1.5
        if h == "plot":
            gw = 0.12          # matplotlib is slow: a rare observation
        for a in groups[h]:
            w[a] = gw / len(groups[h])
    return w


def choose(rng, weights):
    items = sorted(weights.items())
    tot = sum(v for _, v in items)
    x = rng.random() * tot
    for k, v in items:
        x -= v
        if x <= 0:
            return k
    return items[-1][0]


def run_random(seed, cfg_overrides=None, pristine=None, pristine_final=False, max_len=None):
    """Stratum B: one random long history from one integer."""
    rng = random.Random(seed)
    cfg = gen_cfg(rng, **(cfg_overrides or {}))
    length = max_len or rng.choice([4, 6, 8, 8, 12, 12, 16, 24, 40])
    weights = swarm_weights(rng, cfg["cls"], cfg["mode"])
    run = Run(cfg, pristine=pristine)
    try:
        if run.init_error is not None:
            return run
        warm = rng.random() < 0.6
        if warm:
            if run.step({"op": "read"}, "read"):
                return run
        last_kind = "read" if warm else "init"
        n = 0
        while n < length:
            n += 1
            # bias reads towards moments when in-flight state exists
            p_read = 0.15
            if last_kind in ("set", "reassign", "inject", "failed", "call"):
                p_read = 0.5
            if last_kind == "set:invalidating":
                p_read = 0.35
            if rng.random() < p_read:
                aname = "read"
            else:
                aname = choose(rng, weights)
                # right after an invalidating assignment prefer a sides assignment / conversion
                if last_kind == "set:invalidating" and rng.random() < 0.35:
                    aname = rng.choice(["sides:onesided", "sides:twosided", "sides:centerdc", "sides:default",
                                        "sides:same", "conv:twosided", "conv:centerdc"])
            op = concretize(aname, rng, run)
            if op is None:
                continue
            last = (n == length)
            v = run.step(op, aname)
            if v:
                return run
            out_failed = run.log[-1]["out"] != "ok"
            if out_failed:
                last_kind = "failed"
            elif op["op"] == "set":
                last_kind = "set:invalidating" if op["attr"] != "sides" else "set"
            else:
                last_kind = op["op"]
        # the last operation of every history is a read (pristine-checked when asked)
        run.step({"op": "read"}, "read", want_pristine=pristine_final)
        return run
    finally:
        run.close()


# stratum A ------------------------------------------------------------------

def stratumA_space(length, core_only):
    names = CORE_NAMES if core_only else ALPHA_NAMES
    return len(sut.CLASS_NAMES) * 2 * 2 * 2 * (len(names) ** length)


def run_systematic(seed, index, length, core_only, pristine=None, pristine_final=False):
    """Stratum A: index -> (class, data type, length parity, warm?, abstract sequence).
    Returns None when some abstract op does not apply to the class (not an evaluation)."""
    names = CORE_NAMES if core_only else ALPHA_NAMES
    i = index
    seq = []
    for _ in range(length):
        seq.append(names[i % len(names)])
        i //= len(names)
    seq.reverse()
    warm = i % 2; i //= 2
    par = i % 2; i //= 2
    cplx = i % 2; i //= 2
    cls = sut.CLASS_NAMES[i % len(sut.CLASS_NAMES)]
    for a in seq:
        if not applicable(a, cls):
            return None
    rng = random.Random(seed)
    N = rng.choice([16, 20, 24, 32]) + par
    cfg = gen_cfg(rng, cls=cls, cplx=bool(cplx), N=N, mode="mixed")
    if cls != "pcorrelogram":
        cfg["init"]["NFFT"] = rng.choice([None, None, N + 8, N + 9])
    run = Run(cfg, pristine=pristine)
    try:
        if run.init_error is not None:
            return run
        if warm and run.step({"op": "read"}, "read"):
            return run
        for a in seq:
            op = concretize(a, rng, run)
            if op is None:
                continue
            if run.step(op, a):
                return run
        run.step({"op": "read"}, "read", want_pristine=pristine_final)
        return run
    finally:
        run.close()


def replay(cfg, ops, pristine=None, pristine_final=False):
    """Re-execute a concrete operation list (no PRNG involved)."""
    if cfg.get("range"):
        run = RangeRun(cfg)
        if run.init_error is None:
            for op in ops:
                if run.step(op):
                    break
        return run
    if "multi" in cfg:
        run = MultiRun(cfg, pristine=pristine)
        try:
            if run.init_error is not None:
                return run
            for i, op in enumerate(ops):
                if run.step(op, None, want_pristine=pristine_final and op["op"] == "read"):
                    return run
            run.finalize()
            return run
        finally:
            run.close()
    run = Run(cfg, pristine=pristine)
    try:
        if run.init_error is not None:
            return run
        for i, op in enumerate(ops):
            last = i == len(ops) - 1
            if run.step(op, None, want_pristine=(pristine_final and last and op["op"] == "read")):
                break
        return run
    finally:
        run.close()


# ---------------------------------------------------------------------------
# engine interface
# ---------------------------------------------------------------------------
from .common import derive_seed  # noqa: E402

STRATA = {
    # name: (kind, length, core_only)
    "A1": ("sys", 1, False),
    "A2": ("sys", 2, True),
    "A2f": ("sys", 2, False),
    "A3": ("sys", 3, True),
    "A3f": ("sys", 3, False),      # sampled (seed-derived arithmetic progression), never complete in one batch
    "A4": ("sys", 4, True),        # sampled
}


F_SAMPLINGS = [1.0, 2.0, 0.5, 0.1, 0.9, 3.0, 3.3, 7.0, 10.0, 100.0, 1000.0, 1024.0, 8000.0, 44100.0]
F_NFFT = {"F": (16, 144), "Ffull": (16, 528)}


def run_first_read(seed, stratum, index):
    """Stratum F: class x NFFT x sampling x data type, one read and one sides round: `frequencies()` has the
    length of psd and df == sampling/NFFT for every grid, including the (NFFT, sampling) pairs for which
    floating-point axis arithmetic goes wrong.  No reference object is evaluated (nothing can be stale)."""
    lo, hi = F_NFFT[stratum]
    i = index
    cplx = i % 2; i //= 2
    fs = F_SAMPLINGS[i % len(F_SAMPLINGS)]; i //= len(F_SAMPLINGS)
    nfft = lo + i % (hi - lo); i //= (hi - lo)
    cls = sut.CLASS_NAMES[i % len(sut.CLASS_NAMES)]
    rng = random.Random(seed)
    cfg = gen_cfg(rng, cls=cls, cplx=bool(cplx), N=16, mode="fault_free")
    cfg["init"]["NFFT"] = nfft
    cfg["init"]["sampling"] = fs
    if cls == "pcorrelogram":
        cfg["init"]["lag"] = 5
    run = Run(cfg, defer=True, install_plane=False)
    try:
        if run.init_error is not None:
            return run
        if run.step({"op": "read"}, "read"):
            return run
        for s_ in ("twosided", "centerdc"):
            if run.step({"op": "set", "attr": "sides", "value": s_}, "sides:" + s_) or run.step({"op": "read"}, "read"):
                return run
        run.bump("reads_checked_for_length_and_df_only", len(run.pending))
        run.stats["reads_checked"] = run.stats.get("reads_checked", 0) - len(run.pending)
        run.checked_reads -= len(run.pending)
        run.pending = []          # deferred references are deliberately not evaluated in this stratum
        return run
    finally:
        run.close()


def stratum_size(stratum):
    if stratum in F_NFFT:
        lo, hi = F_NFFT[stratum]
        return len(sut.CLASS_NAMES) * (hi - lo) * len(F_SAMPLINGS) * 2
    if stratum in STRATA:
        _, length, core = STRATA[stratum]
        return stratumA_space(length, core)
    return None


def run_index(stratum, index, base_seed, ctx):
    """One run = a pure function of (base_seed, stratum, index).  ctx: {"pristine": server|None,
    "pristine_final": bool}.  Returns a Run or None (abstract history not applicable)."""
    seed = derive_seed(base_seed, PROPERTY, stratum, index)
    pristine = ctx.get("pristine")
    rate = int(ctx.get("pristine_rate") or 1)
    pf = bool(ctx.get("pristine_final")) and pristine is not None and seed % rate == 0
    if stratum in STRATA:
        _, length, core = STRATA[stratum]
        run = run_systematic(seed, index, length, core, pristine=pristine, pristine_final=pf)
    elif stratum == "R":
        run = run_range(seed)
    elif stratum in F_NFFT:
        run = run_first_read(seed, stratum, index)
    elif stratum.startswith("M:"):
        run = run_multi(seed, stratum[2:], pristine=pristine, pristine_final=pf)
    else:
        assert stratum.startswith("B:")
        mode = stratum[2:]
        run = run_random(seed, cfg_overrides={"mode": mode}, pristine=pristine, pristine_final=pf)
    if run is not None:
        run.seed = seed
    return run


def describe(cfg, ops):
    """Short human-readable form of a history (used in samples and messages)."""
    if cfg.get("range"):
        return "Range(N=%d, sampling=%r) :: %s" % (cfg["N"], cfg["sampling"], "; ".join(
            "%s=%r" % ({"setN": "N", "setfs": "sampling"}[o["op"]], o["value"]) if o["op"] != "obs" else "df"
            for o in ops))
    if "multi" in cfg:
        heads = ["obj%d=%s" % (j, describe(c, []).split(" :: ")[0]) for j, c in enumerate(cfg["multi"])]
        body = []
        for o in ops:
            inner = {k: v for k, v in o.items() if k != "o"}
            body.append("obj%d.%s" % (o.get("o", 0), describe(cfg["multi"][0], [inner]).split(" :: ")[1]))
        return " | ".join(heads) + " :: " + "; ".join(body)
    out = []
    for o in ops:
        k = o["op"]
        if k == "set":
            v = o["value"]
            if o["attr"] == "data":
                v = "<%s[%d] %s>" % ({"r": "real", "c": "complex", "i": "int"}[v["t"]], len(v["v"]), v.get("c", "ndarray"))
            out.append("%s=%r" % (o["attr"], v))
        elif k == "reassign":
            out.append("%s=<same>" % o["attr"])
        elif k == "conv":
            out.append("get_converted_psd(%r)" % o["sides"])
        elif k == "inject":
            out.append("inject(kernel%d,%s%s)" % (o["kernel"], o["when"], "," + o["exc"] if o.get("exc") else ""))
        elif k == "read":
            out.append("psd")
        elif k == "plot":
            out.append("plot(norm=%r, sides=%r%s)" % (o.get("norm"), o.get("sides"), ", unwritable file" if o.get("fail") else ""))
        elif k == "mutate_source":
            out.append("<caller overwrites the array it assigned to data, in place>")
        elif k == "copy":
            out.append("p = copy.%s(p)" % ("deepcopy" if o.get("deep") else "copy"))
        elif k == "setconst":
            out.append("%s=%r, p%s()" % (o["attr"], o["value"], "" if o["how"] == "call" else ".run"))
        else:
            out.append(k + "()")
    head = "%s(%s[%d], %s) %s" % (cfg["cls"], "complex" if cfg["cplx"] else "real", len(cfg["data"]["v"]),
                                 ", ".join("%s=%r" % kv for kv in sorted(cfg["init"].items(), key=lambda kv: kv[0])),
                                 cfg["const"] or "")
    return head + " :: " + "; ".join(out)


def culprit(cfg, ops):
    """Abstract descriptor of a (minimised) failing history, for known-finding matching."""
    if cfg.get("range"):
        return {"cls": "Range", "cplx": False, "ops": [o["op"] for o in ops]}
    if "multi" in cfg:
        return {"cls": cfg["cls"], "cplx": cfg["cplx"], "ops": ["obj%d:%s" % (o.get("o", 0), o["op"]) for o in ops]}
    kinds = []
    for o in ops:
        k = o["op"]
        if k in ("set", "reassign"):
            kinds.append("%s:%s" % (k, o["attr"]))
        else:
            kinds.append(k)
    return {"cls": cfg["cls"], "cplx": cfg["cplx"], "ops": kinds}


def _trunc_data(d, n):
    if len(d["v"]) <= n:
        return None
    e = dict(d)
    e["v"] = d["v"][:n]
    return e


def simplifications(cfg, ops):
    """Candidate simpler (cfg, ops) pairs, most aggressive first."""
    import copy
    if cfg.get("range"):
        return
    if "multi" in cfg:
        # drop one actor together with its operations
        if len(cfg["multi"]) > 1:
            for j in range(len(cfg["multi"])):
                c = copy.deepcopy(cfg)
                del c["multi"][j]
                c["cls"] = "multi:" + "+".join(x["cls"] for x in c["multi"])
                oo = []
                for o in ops:
                    if o.get("o", 0) == j:
                        continue
                    o2 = dict(o)
                    if o2.get("o", 0) > j:
                        o2["o"] -= 1
                    oo.append(o2)
                if oo:
                    yield c, oo
        for j, sub in enumerate(cfg["multi"]):
            for n in (8, 12, 16):
                t = _trunc_data(sub["data"], n)
                if t is not None:
                    c = copy.deepcopy(cfg)
                    c["multi"][j]["data"] = t
                    c["multi"][j]["N"] = n
                    yield c, ops
            for key, val in (("NFFT", None), ("sampling", 1.0), ("scale_by_freq", False)):
                if sub["init"].get(key) != val:
                    c = copy.deepcopy(cfg)
                    c["multi"][j]["init"][key] = val
                    yield c, ops
        return
    for n in (8, 12, 16, 24):
        t = _trunc_data(cfg["data"], n)
        if t is not None:
            c = copy.deepcopy(cfg)
            c["data"] = t
            c["N"] = n
            yield c, ops
    for key, val in (("NFFT", None), ("sampling", 1.0), ("scale_by_freq", False), ("detrend", None),
                     ("window", "hann")):
        if key in cfg["init"] and cfg["init"][key] != val:
            c = copy.deepcopy(cfg)
            c["init"][key] = val
            yield c, ops
    if isinstance(cfg["init"].get("NFFT"), int) and cfg["init"]["NFFT"] > 34:
        c = copy.deepcopy(cfg)
        c["init"]["NFFT"] = 32 + cfg["init"]["NFFT"] % 2
        yield c, ops
    for key in sorted(cfg["const"]):
        if cfg["const"][key] is not None and key not in ("NW",):
            c = copy.deepcopy(cfg)
            c["const"][key] = None if key != "method" else "unity"
            if c["const"] != cfg["const"]:
                yield c, ops
    for i, o in enumerate(ops):
        if o["op"] == "set" and o["attr"] == "data":
            for n in (8, 12, 16):
                t = _trunc_data(o["value"], n)
                if t is not None:
                    oo = copy.deepcopy(ops)
                    oo[i]["value"] = t
                    yield cfg, oo
        if o["op"] == "set" and o["attr"] == "NFFT" and isinstance(o["value"], int) and o["value"] > 34:
            oo = copy.deepcopy(ops)
            oo[i]["value"] = 32 + o["value"] % 2
            yield cfg, oo
        if o["op"] == "set" and o["attr"] == "sampling" and o["value"] != 2.0:
            oo = copy.deepcopy(ops)
            oo[i]["value"] = 2.0
            yield cfg, oo


RULE = ("one run = one seeded history (attribute assignments, explicit calls, lazy reads, side conversions, "
        "rejected operations, injected kernel failures) applied to one real estimator object; stratum A "
        "decodes the seed index into (class, data type, length parity, warm/cold, abstract operation "
        "sequence), stratum B draws long random histories with per-run operation mix (swarm). Distinct = "
        "distinct SHA-256 of the run log (operations, outcomes, observable snapshots). Non-trivial = at "
        "least one checked psd read was preceded, since the previous checked read or construction, by a "
        "state-changing operation (assignment, explicit computation) or a fired fault.")
STATE_MEASURE = ("abstract state = (class, data type, NFFT parity, NFFT<,=,>N, stored sides, cache in "
                 "{empty, valid, pending-invalidation}, scale_by_freq); abstract transition = (state, abstract "
                 "operation, outcome, resulting cache state)")
COMPONENTS = {
    "real": ["spectrum (from /repo/src working tree)", "numpy", "scipy", "mydpss.c (compiled by the check from "
             "/repo/src/cpp into /verif/.build)"],
    "stubbed": [],
    "instrumented": ["pass-through wrappers around the kernel names each class resolves at call time "
                     "(count recomputations; raise the injected MemoryError in F4 runs), installed and "
                     "removed within each run"],
    "reference": ["freshly constructed object of the same class with the attribute values the object reports "
                  "(same process at every read; additionally in a pristine forked process for the final read "
                  "when the tier enables it)"],
}
ASSUMPTIONS = [
    "the reference is the same code as the object under test: the check decides staleness, not numerical "
    "correctness of the estimate",
    "explicit assignment of psd and in-place mutation of arrays handed out by getters are outside the statement "
    "and never generated",
    "injected faults are raised at kernel entry/exit only; exception atomicity inside __call__ and thread "
    "safety are not examined",
    "sampling, not enumeration: stratum A visits every short abstract history once the index range covers "
    "the space, concrete arguments are still sampled",
]

PLANS = {
    "quick": {
        "strata": [("A1", 10**9), ("A2", 10**9), ("B:fault_free", 5000), ("B:natural", 7000),
                   ("B:injected", 7000), ("B:mixed", 5000), ("M:natural", 6000), ("R", 3000), ("F", 10**9)],
        "opts": {"pristine": True, "pristine_rate": 16, "selftest_n": 40},
        "wall_cap_s": 900,
    },
    "thorough": {
        "strata": [("A1", 10**9), ("A2f", 10**9), ("A3", 10**9), ("A3f", 1500000), ("A4", 1500000),
                   ("B:fault_free", 150000),
                   ("B:natural", 250000), ("B:injected", 250000), ("B:mixed", 150000), ("M:natural", 200000),
                   ("M:fault_free", 100000), ("R", 200000), ("Ffull", 10**9)],
        "opts": {"pristine": True, "pristine_rate": 8, "selftest_n": 100},
        "wall_cap_s": 6 * 3600,
    },
}


# ---------------------------------------------------------------------------
# several objects alive at once: the scheduler interleaves their operations
# ---------------------------------------------------------------------------

class MultiRun(object):
    """Two or three estimator objects of (possibly) different classes live in one process; a seeded
    scheduler decides which one performs the next operation.  Each object must still satisfy C07 on
    its own, i.e. nothing another object does may leak into its PSD.  References are evaluated at the
    end of the run (deferred), so constructing a reference object cannot perturb the interleaving."""

    def __init__(self, cfg, pristine=None):
        self.cfg = cfg
        self.actors = [Run(c, pristine=pristine, defer=True, install_plane=False) for c in cfg["multi"]]
        self.ops = []
        self.log = []
        self.violation = None
        self.init_error = None
        for a in self.actors:
            if a.init_error is not None:
                self.init_error = a.init_error
        self.cls = cfg["cls"]

    # merged views ---------------------------------------------------------
    @property
    def stats(self):
        out = {}
        for a in self.actors:
            for k, v in a.stats.items():
                out[k] = out.get(k, 0) + v
        out["multi:runs"] = 1
        out["multi:actors"] = len(self.actors)
        return out

    @property
    def states(self):
        return set().union(*[a.states for a in self.actors])

    @property
    def transitions(self):
        t = set().union(*[a.transitions for a in self.actors])
        # the interleaving this run realised: which object acted at each step, by class
        t.add(("schedule", tuple(a.cls for a in self.actors), tuple(o.get("o", 0) for o in self.ops)))
        return t

    @property
    def checked_reads(self):
        return sum(a.checked_reads for a in self.actors)

    @property
    def nontrivial(self):
        return any(a.nontrivial for a in self.actors) and len(set(o.get("o", 0) for o in self.ops)) > 1

    def close(self):
        for a in self.actors:
            a.close()

    def step(self, op, aname=None, want_pristine=False):
        o = op.get("o", 0)
        if o >= len(self.actors):
            o = len(self.actors) - 1
        a = self.actors[o]
        idx = len(self.ops)
        self.ops.append(op)
        inner = {k: v for k, v in op.items() if k != "o"}
        v = a.step(inner, aname, want_pristine=want_pristine, idx=idx)
        e = dict(a.log[-1])
        e["o"] = o
        self.log.append(e)
        if v is None:
            # nothing another object did may move this object's axis either
            for j, b in enumerate(self.actors):
                if j == o:
                    continue
                try:
                    ok = abs(b.p.df - b.p.sampling / float(b.p.NFFT)) <= 1e-12 * abs(b.p.sampling / float(b.p.NFFT))
                except Exception:
                    ok = False
                if not ok:
                    v = Violation("df", idx, "df of object %d changed while object %d performed %r" % (j, o, inner["op"]))
        if v is not None:
            self.violation = v
        return v

    def finalize(self):
        recs = []
        for j, a in enumerate(self.actors):
            for rec in a.pending:
                recs.append((rec[0], j, rec))
            a.pending = []
        for _, j, rec in sorted(recs, key=lambda t: t[0]):
            v = self.actors[j]._check_against_reference(rec)
            if v is not None:
                v.detail = "object %d (%s): %s" % (j, self.actors[j].cls, v.detail)
                self.violation = v
                return v
        return None

    def digest(self):
        return log_digest(self.log)


def run_multi(seed, mode, pristine=None, pristine_final=False):
    rng = random.Random(seed)
    k = rng.choice([2, 2, 3])
    if rng.random() < 0.5:
        classes = [rng.choice(sut.PARAMETRIC) for _ in range(k)]
    else:
        classes = [rng.choice(sut.CLASS_NAMES) for _ in range(k)]
    cfgs = [gen_cfg(rng, cls=c, N=rng.randrange(12, 33), mode=mode) for c in classes]
    cfg = {"multi": cfgs, "cls": "multi:" + "+".join(classes), "cplx": cfgs[0]["cplx"], "mode": mode}
    run = MultiRun(cfg, pristine=pristine)
    try:
        if run.init_error is not None:
            return run
        weights = [swarm_weights(rng, c["cls"], mode) for c in cfgs]
        last_kind = ["init"] * k
        length = rng.choice([4, 6, 8, 12, 16, 24])
        n = 0
        while n < length:
            n += 1
            o = rng.randrange(k)
            a = run.actors[o]
            p_read = 0.5 if last_kind[o] in ("init", "set", "reassign", "failed", "call") else 0.2
            aname = "read" if rng.random() < p_read else choose(rng, weights[o])
            op = concretize(aname, rng, a)
            if op is None:
                continue
            op = dict(op)
            op["o"] = o
            if run.step(op, aname):
                return run
            last_kind[o] = "failed" if run.log[-1]["out"] != "ok" else op["op"]
        order = list(range(k))
        rng.shuffle(order)
        for o in order:
            if run.step({"op": "read", "o": o}, "read", want_pristine=pristine_final):
                return run
        run.finalize()
        return run
    finally:
        run.close()


# ---------------------------------------------------------------------------
# Range on its own (the axis helper behind df and frequencies())
# ---------------------------------------------------------------------------

class RangeRun(object):
    """History of N / sampling assignments and reads on a bare spectrum.psd.Range: df == sampling/N
    after every operation, and the three axes have the lengths the PSD representations have."""

    def __init__(self, cfg):
        self.cfg = cfg
        self.cls = "Range"
        self.ops = []
        self.log = []
        self.stats = {}
        self.states = set()
        self.transitions = set()
        self.violation = None
        self.nontrivial = False
        self.checked_reads = 0
        self.init_error = None
        sp = sut.load()
        try:
            self.r = sp.Range(cfg["N"], cfg["sampling"])
        except Exception as e:
            self.init_error = type(e).__name__

    def close(self):
        pass

    def step(self, op, aname=None, want_pristine=False):
        idx = len(self.ops)
        self.ops.append(op)
        r = self.r
        k = op["op"]
        out = "ok"
        try:
            if k == "setN":
                r.N = op["value"]
                self.nontrivial = True
            elif k == "setfs":
                r.sampling = op["value"]
                self.nontrivial = True
        except Exception as e:
            out = "raised:" + type(e).__name__
        self.stats["op:range:%s:%s" % (k, out.split(":")[0])] = self.stats.get("op:range:%s:%s" % (k, out.split(":")[0]), 0) + 1
        viol = None
        try:
            N, fs, df = r.N, r.sampling, r.df
            self.checked_reads += 1
            if abs(df - fs / float(N)) > 1e-12 * abs(fs / float(N)):
                viol = Violation("df", idx, "Range: df=%r but sampling/N=%r/%r" % (df, fs, N))
            else:
                lens = (len(r.onesided()), len(r.twosided()), len(r.centerdc()))
                exp = (N // 2 + 1 if N % 2 == 0 else (N + 1) // 2, N, N)
                gl = (len(list(r.onesided_gen())), len(list(r.twosided_gen())), len(list(r.centerdc_gen())))
                if lens != exp or gl != exp:
                    viol = Violation("freq_len", idx, "Range(N=%d): axis lengths %s / generators %s, expected %s"
                                     % (N, lens, gl, exp))
        except Exception as e:
            viol = Violation("df", idx, "Range observation raised %s" % type(e).__name__)
        self.log.append({"i": idx, "op": op, "out": out, "df": None if viol else fnum(self.r.df)})
        self.states.add(("Range", self.r.N % 2))
        if viol is not None:
            self.violation = viol
        return viol

    def finalize(self):
        return None

    def digest(self):
        return log_digest(self.log)


def run_range(seed):
    rng = random.Random(seed)
    cfg = {"range": True, "cls": "Range", "cplx": False, "N": rng.randrange(1, 200), "sampling": rng.choice(SAMPLINGS)}
    run = RangeRun(cfg)
    if run.init_error is not None:
        return run
    run.step({"op": "obs"})
    for _ in range(rng.randrange(1, 7)):
        r = rng.random()
        if r < 0.45:
            op = {"op": "setN", "value": rng.choice([1, 2, 3, rng.randrange(1, 300), run.r.N, run.r.N + 1])}
        elif r < 0.9:
            op = {"op": "setfs", "value": rng.choice(SAMPLINGS + [run.r.sampling, 3.0])}
        else:
            op = {"op": "obs"}
        if run.step(op):
            return run
    return run
