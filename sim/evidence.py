"""Evidence writer: /verif/evidence/<id>.json per /root/.vp/EVIDENCE.schema.json."""
import json
import os
import subprocess

from . import sut


def _git_head(path):
    try:
        return subprocess.run(["git", "-C", path, "rev-parse", "--short", "HEAD"], stdout=subprocess.PIPE,
                              stderr=subprocess.DEVNULL, timeout=10).stdout.decode().strip()
    except Exception:
        return "?"


def _group(stats, prefix):
    return {k[len(prefix):]: v for k, v in sorted(stats.items()) if k.startswith(prefix)}


def write(mname, m, tier, seed, workers, batch, selftest, reports, wall, t_batch, complete, plan, probes=None):
    r = batch.res
    stats = r["stats"]
    runs = r["runs"]
    per_stratum = {}
    for s, ps in sorted(r["per_stratum"].items()):
        d = dict(ps)
        if ps["space"]:
            d["fraction_of_abstract_space_visited"] = round((ps["runs"] + ps["skipped"]) / float(ps["space"]), 6)
        per_stratum[s] = d
    faults = _group(stats, "fault:")
    fault_kinds = {k: v for k, v in faults.items() if ":site:" not in k}
    fault_sites = len([k for k in faults if ":site:" in k])
    samples = list(r["samples"][:8])
    for rep in reports[:4]:
        samples.append({"minimised_violation": rep["history"], "clause": rep["clause"], "replay": rep["replay"]})
    coverage = {
        "evaluations": runs,
        "distinct_nontrivial": len(r["digests_nontrivial"]),
        "rule": m.RULE,
        "samples": samples,
        "exhaustive": False,
        "distinct_histories": len(r["digests_all"]),
        "steps": r["steps"],
        "checked_reads": r["checked_reads"],
        "runs_per_hour": round(runs / max(t_batch, 1e-9) * 3600),
        "seeds_per_hour": round((runs + r["skipped"]) / max(t_batch, 1e-9) * 3600),
        "simulated_time": "logical steps only (%d operations applied) -- the system has no timers or clocks"
                          % r["steps"],
        "workers": workers,
        "strata": per_stratum,
        "plan_completed": bool(complete),
        "operations_by_kind_and_outcome": _group(stats, "op:"),
        "exceptions_seen_by_type": _group(stats, "exc:"),
        "faults_fired_by_kind": fault_kinds,
        "injected_fault_sites_distinct": fault_sites,
        "reads": _group(stats, "read:"),
        "probes": _group(stats, "probe:"),
        "other_counters": {k: v for k, v in sorted(stats.items())
                           if not k.startswith(("op:", "exc:", "fault:", "read:", "probe:"))},
        "abstract_states_reached": len(r["states"]),
        "abstract_transitions_reached": len([t for t in r["transitions"] if t[0] != "schedule"]),
        "distinct_interleavings_of_multi_object_runs": len([t for t in r["transitions"] if t[0] == "schedule"]),
        "state_measure": m.STATE_MEASURE,
        "runs_with_unconstructible_initial_configuration": r["init_errors"],
        "determinism_selftest": selftest,
        "components": m.COMPONENTS,
        "known_findings_hit": [rep["known"].get("id", rep["known"].get("what_fails")) for rep in reports
                               if rep.get("known")] + [
                                   "pdaniell-freq-len" for k, v in sorted((probes or {}).items())
                                   if "known finding" in v.get("outcome", "")],
        "fixed_probes": probes or {},
        "violation_buckets": [{"clause": rep["clause"], "runs": rep["count"], "replay": rep["replay"],
                               "confirmed_in_fresh_process": rep["confirmed"], "known": bool(rep["known"]),
                               "history": rep["history"]} for rep in reports],
        "harness_errors": len(r["harness"]),
        "repo_head": _git_head(sut.REPO),
        "verif_head": _git_head(sut.VERIF),
    }
    doc = {
        "property_id": m.PROPERTY,
        "tier": tier,
        "seed": int(seed),
        "level": "exploration",
        "coverage": coverage,
        "assumptions": m.ASSUMPTIONS,
        "wall_s": round(wall, 2),
        "violations": len([rep for rep in reports if rep["confirmed"] and not rep["known"]]) + len(
            [v for v in (probes or {}).values() if v.get("outcome") == "VIOLATION"]),
    }
    os.makedirs(os.path.join(sut.VERIF, "evidence"), exist_ok=True)
    path = os.path.join(sut.VERIF, "evidence", "%s.json" % m.PROPERTY)
    tmp = path + ".tmp"
    with open(tmp, "w") as f:
        json.dump(doc, f, indent=1, sort_keys=False, default=str)
    os.replace(tmp, path)
    return path
