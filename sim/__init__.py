"""Deterministic simulation machinery for cokelaer/spectrum (see /verif/DESIGN.md)."""
