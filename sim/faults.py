"""F4: kernel-level fault plane.

The estimator classes resolve their numerical kernels by name at call time
(module globals such as spectrum.burg.arburg, or `from spectrum import arma2psd`
executed inside __call__).  The plane rebinds those names to pass-through wrappers
for the duration of one run; when the simulator arms a fault the next invocation of
the chosen kernel raises MemoryError, either before the real kernel runs or after it
returned (result lost).  Wrappers also count kernel invocations (= recomputations),
which feeds the reach statistics only.
"""
import importlib

from . import sut


class Injected(MemoryError):
    pass


def injected_exception(kind, msg):
    """The exception types a numerical kernel can really raise; a fallback written for one of them
    (`except LinAlgError: use the previous model`) is only exercised if that very type is injected."""
    import numpy as np
    base = {"MemoryError": MemoryError, "LinAlgError": np.linalg.LinAlgError, "FloatingPointError": FloatingPointError,
            "ZeroDivisionError": ZeroDivisionError, "OverflowError": OverflowError, "ValueError": ValueError}.get(kind, MemoryError)
    if base is MemoryError:
        return Injected(msg)
    return type("Injected" + base.__name__, (base,), {})(msg)


class FaultPlane(object):
    def __init__(self, cls_name):
        self.cls_name = cls_name
        self.seams = sut.KERNELS[cls_name]
        self.armed = None          # (kernel index, "before"|"after")
        self.fired = 0
        self.fired_sites = []      # (kernel index, when)
        self.calls = [0] * len(self.seams)
        self.in_oracle = 0
        self._orig = []
        self.missing = []

    def install(self):
        sut.load()
        for idx, (modname, attr) in enumerate(self.seams):
            try:
                mod = importlib.import_module(modname)
                orig = getattr(mod, attr)
            except (ImportError, AttributeError):
                # the seam was renamed or moved by a refactoring: no injection at this site, the
                # history-based clauses are unaffected
                self.missing.append((modname, attr))
                continue
            self._orig.append((mod, attr, orig))
            setattr(mod, attr, self._wrap(orig, idx))

    def remove(self):
        for mod, attr, orig in reversed(self._orig):
            setattr(mod, attr, orig)
        self._orig = []

    def _wrap(self, orig, idx):
        plane = self

        def kernel(*a, **k):
            if plane.in_oracle:
                return orig(*a, **k)
            plane.calls[idx] += 1
            arm = plane.armed
            if arm is None or arm[0] != idx:
                return orig(*a, **k)
            plane.armed = None
            plane.fired += 1
            plane.fired_sites.append((idx, arm[1]))
            kind = arm[2] if len(arm) > 2 else "MemoryError"
            if arm[1] == "before":
                raise injected_exception(kind, "injected kernel failure (before) in %s" % orig.__name__)
            orig(*a, **k)
            raise injected_exception(kind, "injected kernel failure (after) in %s" % orig.__name__)
        kernel.__name__ = getattr(orig, "__name__", "kernel")
        kernel.__wrapped__ = orig
        return kernel

    def arm(self, idx, when, kind="MemoryError"):
        if idx >= len(self.seams):
            idx = len(self.seams) - 1
        self.armed = (idx, when, kind)

    class _Oracle(object):
        def __init__(self, plane):
            self.plane = plane

        def __enter__(self):
            self.plane.in_oracle += 1

        def __exit__(self, *a):
            self.plane.in_oracle -= 1

    def oracle(self):
        return FaultPlane._Oracle(self)
