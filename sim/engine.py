"""Batch driver: seeds -> runs on a fork pool -> merged statistics, violations, evidence.

A run is a pure function of (base seed, stratum, index); the batch result is therefore
independent of the worker count and of which worker ran which index.  Wall-clock is read
here only, for budgets and throughput, never inside a run.
"""
import faulthandler
import json
import multiprocessing
import os
import signal
import subprocess
import sys
import time
import traceback
from concurrent.futures import ProcessPoolExecutor, as_completed

from . import sut
from .common import derive_seed

VERIF = sut.VERIF
RUN_TIMEOUT_S = 60

_CTX = {}
_MACHINES = {}


def machine_by_name(name):
    if name not in _MACHINES:
        if name == "C07":
            from . import m07_cache as m
        elif name == "C06":
            from . import m06_sides as m
        else:
            raise KeyError(name)
        _MACHINES[name] = m
    return _MACHINES[name]


class RunTimeout(Exception):
    pass


def _alarm(signum, frame):
    raise RunTimeout("run exceeded %ds" % RUN_TIMEOUT_S)


def _init_worker(opts):
    sut.load()
    _CTX.clear()
    _CTX.update({"pristine": None, "pristine_final": False})
    if opts.get("pristine"):
        from .refmodel import PristineServer
        import scipy.fftpack, scipy.linalg, scipy.signal  # noqa: F401  (imports only; no spectrum function is called)
        _CTX["pristine"] = PristineServer()
        _CTX["pristine_final"] = True
        _CTX["pristine_rate"] = int(opts.get("pristine_rate", 1))
    try:
        import pylab  # noqa: F401  (import only: the rare plot() operations must not pay for it in every child)
    except Exception:
        pass
    signal.signal(signal.SIGALRM, _alarm)
    faulthandler.enable()


def ensure_ctx(opts):
    """For in-process use (replay, shrinking, self-test)."""
    if not _CTX:
        _init_worker(opts)
    return _CTX


def in_pristine_child(fn, *args):
    """Run fn(*args) in a forked child of the (pristine) calling process and return its pickled result."""
    import pickle
    r, w = os.pipe()
    pid = os.fork()
    if pid == 0:
        try:
            os.close(r)
            try:
                data = pickle.dumps(fn(*args), protocol=pickle.HIGHEST_PROTOCOL)
            except BaseException:
                data = pickle.dumps({"fatal": traceback.format_exc()})
            view = memoryview(data)
            while view:
                n = os.write(w, view[:1 << 20])
                view = view[n:]
        finally:
            os._exit(0)
    os.close(w)
    chunks = []
    while True:
        b = os.read(r, 1 << 20)
        if not b:
            break
        chunks.append(b)
    os.close(r)
    _, status = os.waitpid(pid, 0)
    if not chunks:
        return {"fatal": "child died without a result (wait status %d)" % status}
    return pickle.loads(b"".join(chunks))


def _run_chunk(args):
    """Runs in a pool worker.  The worker itself never executes any spectrum function: it forks a
    child per chunk, so every chunk starts from the same pristine process state (imports only) and a
    chunk's result does not depend on which chunks the worker served before -- even if the code under
    test keeps process-global state.  A crashing child costs one chunk, not the pool."""
    out = in_pristine_child(_run_chunk_inner, args)
    if "fatal" in out:
        out["stratum"] = args[1]
    return out


def _run_chunk_inner(args):
    mname, stratum, base_seed, indices, want_samples, full = args
    m = machine_by_name(mname)
    out = {"stratum": stratum, "runs": 0, "skipped": 0, "steps": 0, "stats": {}, "states": set(),
           "transitions": set(), "digests": [], "violations": [], "samples": [], "harness": [],
           "init_errors": 0, "checked_reads": 0, "full_digests": {}}
    stats = out["stats"]
    for idx in indices:
        try:
            signal.alarm(RUN_TIMEOUT_S)
            run = m.run_index(stratum, idx, base_seed, _CTX)
            signal.alarm(0)
        except Exception:
            signal.alarm(0)
            out["harness"].append({"stratum": stratum, "index": idx, "trace": traceback.format_exc()})
            continue
        if run is None:
            out["skipped"] += 1
            continue
        out["runs"] += 1
        if run.init_error is not None:
            out["init_errors"] += 1
            if full:
                out["full_digests"]["%s/%d" % (stratum, idx)] = "init:" + run.init_error
            continue
        if full:
            out["full_digests"]["%s/%d" % (stratum, idx)] = run.digest()
        out["steps"] += len(run.ops)
        out["checked_reads"] += run.checked_reads
        for k, v in run.stats.items():
            stats[k] = stats.get(k, 0) + v
        out["states"] |= run.states
        out["transitions"] |= run.transitions
        d = run.digest()
        out["digests"].append((int(d[:16], 16), bool(run.nontrivial)))
        if run.violation is not None:
            v = run.violation
            pos = indices.index(idx)
            out["violations"].append({"stratum": stratum, "index": idx, "seed": run.seed, "clause": v.clause,
                                      "step": v.step, "detail": v.detail, "cfg": run.cfg, "ops": run.ops,
                                      "digest": d, "chunk_prefix": list(indices[:pos + 1])})
        elif len(out["samples"]) < want_samples:
            out["samples"].append({"stratum": stratum, "index": idx, "seed": run.seed,
                                   "history": m.describe(run.cfg, run.ops), "digest": d[:16]})
    return out


def index_list(size, count, base_seed, stratum):
    """`count` distinct indices of a space of `size`: all of them if count >= size, else an
    arithmetic progression with a seed-derived offset and a stride coprime with size."""
    if size is None:
        return list(range(count))
    if count >= size:
        return list(range(size))
    off = derive_seed(base_seed, "offset", stratum) % size
    stride = (derive_seed(base_seed, "stride", stratum) % size) | 1
    import math
    while math.gcd(stride, size) != 1:
        stride += 2
    return [(off + i * stride) % size for i in range(count)]


class Batch(object):
    def __init__(self, mname, base_seed, workers, opts):
        self.mname = mname
        self.m = machine_by_name(mname)
        self.base_seed = base_seed
        self.workers = workers
        self.opts = opts
        self.res = {"runs": 0, "skipped": 0, "steps": 0, "stats": {}, "states": set(), "transitions": set(),
                    "digests_all": set(), "digests_nontrivial": set(), "violations": [], "samples": [],
                    "harness": [], "init_errors": 0, "checked_reads": 0, "per_stratum": {}}
        self.t0 = time.time()
        self.selftest_plan = []
        self.selftest_n = opts.get("selftest_n", 60)
        self.full_digests = {}

    def run_plan(self, plan, wall_cap_s=None, chunk=250):
        """plan: list of (stratum, count).  Returns when everything ran or the wall cap was hit."""
        sut.load()   # build + import once in the parent, before forking
        tasks = []
        for stratum, count in plan:
            size = self.m.stratum_size(stratum)
            idxs = index_list(size, count, self.base_seed, stratum)
            ps = self.res["per_stratum"].setdefault(stratum, {"planned": len(idxs), "space": size, "runs": 0,
                                                            "skipped": 0, "violations": 0})
            step = chunk if size is not None else max(50, chunk // 3)     # random strata have long histories
            for i in range(0, len(idxs), step):
                full = i == 0
                if full:
                    self.selftest_plan.append((stratum, idxs[:min(step, self.selftest_n)]))
                tasks.append((self.mname, stratum, self.base_seed, idxs[i:i + step], 2, full))
        tasks.sort(key=lambda t: 0 if self.m.stratum_size(t[1]) is None else 1)
        ctx = multiprocessing.get_context("fork")
        capped = False
        with ProcessPoolExecutor(max_workers=self.workers, mp_context=ctx, initializer=_init_worker,
                                 initargs=(self.opts,)) as ex:
            futs = [ex.submit(_run_chunk, t) for t in tasks]
            try:
                for f in as_completed(futs, timeout=wall_cap_s):
                    self._merge(f.result())
            except Exception as e:   # TimeoutError from as_completed, BrokenProcessPool...
                capped = True
                self.res["harness"].append({"trace": "batch stopped: %s: %s" % (type(e).__name__, e)})
                for f in futs:
                    f.cancel()
                ex.shutdown(wait=False, cancel_futures=True)
        return not capped

    def _merge(self, out):
        r = self.res
        if "fatal" in out:
            r["harness"].append({"stratum": out.get("stratum"), "trace": out["fatal"]})
            return
        for k in ("runs", "skipped", "steps", "init_errors", "checked_reads"):
            r[k] += out[k]
        for k, v in out["stats"].items():
            r["stats"][k] = r["stats"].get(k, 0) + v
        r["states"] |= out["states"]
        r["transitions"] |= out["transitions"]
        for d, nt in out["digests"]:
            r["digests_all"].add(d)
            if nt:
                r["digests_nontrivial"].add(d)
        r["violations"].extend(out["violations"])
        if len(r["samples"]) < 12:
            r["samples"].extend(out["samples"][:1])
        r["harness"].extend(out["harness"])
        self.full_digests.update(out["full_digests"])
        ps = r["per_stratum"][out["stratum"]]
        ps["runs"] += out["runs"]
        ps["skipped"] += out["skipped"]
        ps["violations"] += len(out["violations"])


# ---------------------------------------------------------------------------
# determinism self-test
# ---------------------------------------------------------------------------

def _digests_one(mname, base_seed, stratum, idxs):
    m = machine_by_name(mname)
    out = {}
    for idx in idxs:
        signal.alarm(RUN_TIMEOUT_S)
        run = m.run_index(stratum, idx, base_seed, _CTX)
        signal.alarm(0)
        if run is None:
            continue
        out["%s/%d" % (stratum, idx)] = run.digest() if run.init_error is None else "init:" + run.init_error
    return out


def digests_for(mname, base_seed, plan, opts):
    """Sequential: {"stratum/index": digest}.  plan: [(stratum, [indices])].  Like the pool, each
    stratum's chunk runs in a child forked from this (pristine) process."""
    ensure_ctx(opts)
    out = {}
    for stratum, idxs in plan:
        res = in_pristine_child(_digests_one, mname, base_seed, stratum, idxs)
        if "fatal" in res:
            raise RuntimeError(res["fatal"])
        out.update(res)
    return out


def determinism_selftest(mname, base_seed, plan, pool_digests, opts, hashseed="12345"):
    """The same (stratum, index) pairs are re-run sequentially in two fresh interpreters under
    different PYTHONHASHSEED values; their run digests must equal each other and the digests the
    worker pool produced (different process, different worker count, different run order)."""
    outs = []
    procs = []
    for hs in ("0", hashseed):
        env = dict(os.environ)
        env["PYTHONHASHSEED"] = hs
        cmd = [sys.executable, "-B", os.path.join(VERIF, "sim", "cli.py"), "digests", mname,
               "--seed", str(base_seed), "--plan", json.dumps(plan), "--opts", json.dumps(opts)]
        procs.append(subprocess.Popen(cmd, env=env, stdout=subprocess.PIPE, stderr=subprocess.PIPE))
    for p in procs:
        try:
            so, se = p.communicate(timeout=900)
        except subprocess.TimeoutExpired:
            p.kill()
            return {"ok": False, "error": "self-test interpreter timed out"}
        if p.returncode != 0:
            return {"ok": False, "error": se.decode()[-2000:]}
        outs.append(json.loads(so.decode().strip().splitlines()[-1]))
    a, b = outs
    keys = set(a) | set(b)
    diff = sorted(k for k in keys if a.get(k) != b.get(k))
    diff_pool = sorted(k for k in keys if k in pool_digests and pool_digests[k] != a.get(k))
    missing = sorted(k for k in keys if k not in pool_digests)
    return {"ok": not diff and not diff_pool, "compared": len(keys), "mismatch_between_interpreters": diff[:10],
            "mismatch_with_pool": diff_pool[:10], "not_in_pool": len(missing), "hashseeds": ["0", hashseed]}


def replay_run_sequence(mname, base_seed, stratum, indices):
    """Run the given indices of one stratum one after the other in THIS process (call it in a pristine
    child) and return the violation of the last one as (clause, step, detail, digest) or None.  Used
    when a failure depends on process-global state left behind by earlier runs of the same chunk."""
    m = machine_by_name(mname)
    run = None
    for idx in indices:
        signal.alarm(RUN_TIMEOUT_S)
        run = m.run_index(stratum, idx, base_seed, _CTX)
        signal.alarm(0)
    if run is None or run.violation is None:
        return None
    v = run.violation
    return (v.clause, v.step, v.detail, run.digest())
