"""Minimisation of a failing (cfg, ops) pair.

ddmin over the concrete operation list, then machine-specific simplifications of the
configuration and of single operations.  A candidate is accepted only if replaying it
fails with the same clause id.  Replays are from the concrete operation list, never
from the PRNG, so every candidate is well defined.
"""
import copy


def ddmin(ops, fails, max_tests=400):
    """Classic ddmin on a list; `fails(list) -> bool`."""
    tests = [0]

    def test(c):
        tests[0] += 1
        return fails(c)

    n = 2
    cur = list(ops)
    while len(cur) >= 2 and tests[0] < max_tests:
        chunk = max(1, len(cur) // n)
        subsets = [cur[i:i + chunk] for i in range(0, len(cur), chunk)]
        reduced = False
        for i in range(len(subsets)):
            comp = [x for j, s in enumerate(subsets) if j != i for x in s]
            if comp and test(comp):
                cur = comp
                n = max(n - 1, 2)
                reduced = True
                break
        if not reduced:
            if n >= len(cur):
                break
            n = min(len(cur), n * 2)
    # final single-element pass
    i = 0
    while i < len(cur) and len(cur) > 1 and tests[0] < max_tests:
        cand = cur[:i] + cur[i + 1:]
        if test(cand):
            cur = cand
        else:
            i += 1
    return cur


def minimise(machine, cfg, ops, clause, step, max_tests=600, replay_clause=None):
    """Return (cfg, ops, n_replays).  replay_clause(cfg, ops) -> clause id or None; by default an
    in-process replay, the driver passes one that replays in a pristine child process."""
    count = [0]

    def fails_with(c, o):
        count[0] += 1
        try:
            if replay_clause is not None:
                return replay_clause(c, o) == clause
            r = machine.replay(c, o)
        except Exception:
            return False
        v = r.violation
        return v is not None and v.clause == clause

    # 1. truncate after the violating step
    cur_ops = list(ops[:step + 1])
    if not fails_with(cfg, cur_ops):
        cur_ops = list(ops)
        if not fails_with(cfg, cur_ops):
            return cfg, list(ops), count[0]
    cur_cfg = cfg
    # 2. ddmin on the operation list
    cur_ops = ddmin(cur_ops, lambda o: fails_with(cur_cfg, o), max_tests=max_tests // 2)
    # 3. machine-specific simplifications, to a fixed point (bounded)
    changed = True
    rounds = 0
    while changed and rounds < 4 and count[0] < max_tests:
        changed = False
        rounds += 1
        for cand_cfg, cand_ops in machine.simplifications(copy.deepcopy(cur_cfg), copy.deepcopy(cur_ops)):
            if count[0] >= max_tests:
                break
            if fails_with(cand_cfg, cand_ops):
                cur_cfg, cur_ops = cand_cfg, cand_ops
                changed = True
                break
    return cur_cfg, cur_ops, count[0]
