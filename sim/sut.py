"""System under test: the real spectrum package from /repo's working tree.

Nothing is stubbed.  The only preparation is (a) putting /repo/src first on
sys.path so the working tree (possibly edited) is what runs, and (b) compiling
/repo/src/cpp/mydpss.c into /verif/.build and rebinding spectrum.mtm.mtspeclib
to it, because *.so is git-ignored in /repo and a changed C file must be what
runs.
"""
import ctypes
import hashlib
import os
import subprocess
import sys
import warnings

REPO = os.environ.get("VERIF_REPO", "/repo")
VERIF = os.path.dirname(os.path.dirname(os.path.abspath(__file__)))
BUILD = os.path.join(VERIF, ".build")

_loaded = {}


def build_dpss():
    src = os.path.join(REPO, "src", "cpp", "mydpss.c")
    with open(src, "rb") as f:
        h = hashlib.sha256(f.read()).hexdigest()[:16]
    os.makedirs(BUILD, exist_ok=True)
    out = os.path.join(BUILD, "mydpss_%s.so" % h)
    if not os.path.exists(out):
        tmp = out + ".%d.tmp" % os.getpid()
        subprocess.run(["gcc", "-O2", "-shared", "-fPIC", "-w", "-o", tmp, src, "-lm"],
                       check=True, stdout=subprocess.PIPE, stderr=subprocess.PIPE)
        os.replace(tmp, out)
    return out


def load():
    """Import spectrum from the working tree once per process; returns the package."""
    if "pkg" in _loaded:
        return _loaded["pkg"]
    src = os.path.join(REPO, "src")
    if sys.path[0] != src:
        sys.path.insert(0, src)
    warnings.simplefilter("ignore")
    import logging
    logging.disable(logging.CRITICAL)
    # spectrum.mtm prints when the .so is missing; keep stdout clean
    so = build_dpss()
    _stdout = sys.stdout
    try:
        sys.stdout = open(os.devnull, "w")
        import spectrum  # noqa
        import spectrum.mtm  # noqa
    finally:
        sys.stdout.close()
        sys.stdout = _stdout
    assert os.path.realpath(spectrum.__file__).startswith(os.path.realpath(src)), \
        "spectrum imported from %s, not from %s" % (spectrum.__file__, src)
    spectrum.mtm.mtspeclib = ctypes.CDLL(so)
    import numpy
    numpy.seterr(all="ignore")
    _loaded["pkg"] = spectrum
    return spectrum


# ---------------------------------------------------------------------------
# The twelve estimator classes the properties name
# ---------------------------------------------------------------------------

FOURIER = ("Periodogram", "pcorrelogram")
PARAMETRIC = ("pburg", "pyule", "pcovar", "pmodcovar", "parma", "pma", "pminvar", "pmusic", "pev")
CLASS_NAMES = FOURIER + PARAMETRIC + ("MultiTapering",)

# attribute names (beyond the common ones) that a history may assign, per class
EXTRA_ATTRS = {
    "Periodogram": ("window",),
    "pcorrelogram": ("window", "lag"),
    "pburg": ("ar_order",),
    "pyule": ("ar_order",),
    "pcovar": ("ar_order",),
    "pmodcovar": ("ar_order",),
    "parma": ("ar_order", "ma_order", "lag"),
    "pma": ("ar_order", "ma_order"),
    "pminvar": ("ar_order",),
    "pmusic": ("ar_order",),
    "pev": ("ar_order",),
    "MultiTapering": (),
}
COMMON_ATTRS = ("data", "NFFT", "sampling", "scale_by_freq", "detrend", "sides")

# kernels: the names the class resolves at call time (module, attribute), in call order
KERNELS = {
    # outer kernels first (index 0 is used to count recomputations), then inner seams: numerical
    # routines the kernels themselves look up as module globals
    "Periodogram": (("spectrum.periodogram", "speriodogram"), ("spectrum.periodogram", "rfft"),
                    ("spectrum.periodogram", "fft")),
    "pcorrelogram": (("spectrum.correlog", "CORRELOGRAMPSD"), ("spectrum.correlog", "xcorr"),
                     ("spectrum.correlog", "fft")),
    "pburg": (("spectrum.burg", "arburg"), ("spectrum.arma", "arma2psd"), ("spectrum.arma", "fft")),
    "pyule": (("spectrum.yulewalker", "aryule"), ("spectrum.arma", "arma2psd"), ("spectrum.arma", "fft")),
    "pcovar": (("spectrum.covar", "arcovar"), ("spectrum", "arma2psd"), ("spectrum.arma", "fft")),
    "pmodcovar": (("spectrum.modcovar", "modcovar"), ("spectrum", "arma2psd"), ("spectrum.arma", "fft")),
    "parma": (("spectrum.arma", "arma_estimate"), ("spectrum.arma", "arma2psd"), ("spectrum.arma", "fft"),
              ("spectrum.arma", "CORRELATION")),
    "pma": (("spectrum.arma", "ma"), ("spectrum.arma", "arma2psd"), ("spectrum.arma", "fft")),
    "pminvar": (("spectrum.minvar", "minvar"), ("spectrum.minvar", "arburg"), ("spectrum.minvar", "fft")),
    "pmusic": (("spectrum.eigenfre", "eigen"), ("spectrum.eigenfre", "svd"), ("spectrum.eigenfre", "fft")),
    "pev": (("spectrum.eigenfre", "eigen"), ("spectrum.eigenfre", "svd"), ("spectrum.eigenfre", "fft")),
    "MultiTapering": (("spectrum.mtm", "pmtm"), ("spectrum.mtm", "dpss")),
}


def get_class(name):
    sp = load()
    if name == "MultiTapering":
        return sp.mtm.MultiTapering
    return getattr(sp, name)


def construct(name, snap, const):
    """Build a fresh object of class `name` from a snapshot of attribute values and the
    per-run constants.  Attributes the constructor does not take are assigned afterwards.
    The PSD is not read here."""
    cls = get_class(name)
    d = snap["data"]
    data = d.copy() if hasattr(d, "copy") else list(d)
    common = dict(NFFT=snap["NFFT"], sampling=snap["sampling"], scale_by_freq=snap["scale_by_freq"])
    if name == "Periodogram":
        p = cls(data, window=snap["window"], detrend=snap["detrend"], **common)
    elif name == "pcorrelogram":
        p = cls(data, lag=snap["lag"], window=snap["window"], detrend=snap["detrend"], **common)
    elif name == "pburg":
        p = cls(data, snap["ar_order"], criteria=const.get("criteria"), **common)
    elif name == "pyule":
        p = cls(data, snap["ar_order"], norm=const.get("norm", "biased"), **common)
    elif name in ("pcovar", "pmodcovar", "pminvar"):
        p = cls(data, snap["ar_order"], **common)
    elif name == "parma":
        p = cls(data, snap["ar_order"], snap["ma_order"], snap["lag"], **common)
    elif name == "pma":
        p = cls(data, snap["ma_order"], snap["ar_order"], **common)
    elif name in ("pmusic", "pev"):
        p = cls(data, snap["ar_order"], NSIG=const.get("NSIG"), threshold=const.get("threshold"),
                criteria=const.get("eig_criteria", "aic"), **common)
    elif name == "MultiTapering":
        ev = {}
        if const.get("e") is not None:
            import numpy as _np
            ev = {"e": _np.array(const["e"], dtype=float), "v": _np.array(const["v"], dtype=float)}   # fresh copies
        p = cls(data, NW=const.get("NW"), k=const.get("k"), method=const.get("method", "adapt"), **ev, **common)
    else:
        raise KeyError(name)
    if name not in FOURIER and snap.get("detrend") is not None:
        p.detrend = snap["detrend"]
    if name == "pcorrelogram" and const.get("data_y") is not None:
        # cross-correlogram: data_y is a per-run constant (it is not one of the attributes the statement
        # lists, and the constructor does not take it)
        from .common import dec_array
        p.data_y = dec_array(const["data_y"])
    return p


def snapshot(name, p):
    """The attribute values the object reports (copies)."""
    s = {
        "data": p.data.copy(),
        "NFFT": p.NFFT,
        "sampling": p.sampling,
        "scale_by_freq": p.scale_by_freq,
        "detrend": p.detrend,
        "sides": p.sides,
    }
    for a in EXTRA_ATTRS[name]:
        s[a] = getattr(p, a)
    if name in PARAMETRIC:
        s.setdefault("ar_order", p.ar_order)
        s.setdefault("ma_order", p.ma_order)
        s.setdefault("lag", p.lag)
    if name in FOURIER:
        s.setdefault("lag", p.lag)
        s.setdefault("window", p.window)
    return s
