"""Reference models.

M07: the statement's own reference -- a freshly constructed object with the same
final attribute values -- evaluated either in-process or in a *pristine* process (a
grandchild forked from a zygote in which no spectrum function was ever called, so
the reference cannot share call-history-dependent process state with the object
under test).

M06: the canonical two-sided spectrum in DFT bin order and its renderings.
"""
import os
import pickle
import select
import struct
import sys

import numpy as np

from . import sut


# ---------------------------------------------------------------------------
# M07
# ---------------------------------------------------------------------------

def reference_eval(cls_name, snap, const, query):
    """Return ("ok", value, freq_len, df) or ("raised", exception type name).

    query: {"kind": "psd"} | {"kind": "conv", "sides": s} | {"kind": "power"}
    """
    try:
        p = sut.construct(cls_name, snap, const)
        v = p.psd
        if snap["sides"] != p.sides:
            p.sides = snap["sides"]
            v = p.psd
        if query["kind"] == "conv":
            v = p.get_converted_psd(query["sides"])
            flen = len(p.frequencies(query["sides"]))
        elif query["kind"] == "power":
            v = p.power()
            flen = -1
        else:
            flen = len(p.frequencies())
        return ("ok", np.array(v), flen, float(p.df))
    except Exception as e:  # the reference cannot produce a value
        return ("raised", type(e).__name__)


class PristineServer(object):
    """Zygote forked before the worker runs any history; forks one grandchild per request."""

    def __init__(self):
        sut.load()
        req_r, req_w = os.pipe()
        rsp_r, rsp_w = os.pipe()
        pid = os.fork()
        if pid == 0:
            # zygote
            try:
                os.close(req_w)
                os.close(rsp_r)
                self._zygote(req_r, rsp_w)
            finally:
                os._exit(0)
        os.close(req_r)
        os.close(rsp_w)
        self.pid = pid
        self.req_w = req_w
        self.rsp_r = rsp_r
        self.requests = 0

    @staticmethod
    def _read_exact(fd, n):
        buf = b""
        while len(buf) < n:
            chunk = os.read(fd, n - len(buf))
            if not chunk:
                raise EOFError
            buf += chunk
        return buf

    def _zygote(self, req_r, rsp_w):
        while True:
            try:
                hdr = self._read_exact(req_r, 4)
            except EOFError:
                return
            (n,) = struct.unpack("<I", hdr)
            payload = self._read_exact(req_r, n)
            pid = os.fork()
            if pid == 0:
                try:
                    args = pickle.loads(payload)
                    res = reference_eval(*args)
                    out = pickle.dumps(res, protocol=pickle.HIGHEST_PROTOCOL)
                except BaseException as e:  # pragma: no cover
                    out = pickle.dumps(("harness", repr(e)))
                os.write(rsp_w, struct.pack("<I", len(out)) + out)
                os._exit(0)
            os.waitpid(pid, 0)

    def eval(self, cls_name, snap, const, query, timeout=60.0):
        payload = pickle.dumps((cls_name, snap, const, query), protocol=pickle.HIGHEST_PROTOCOL)
        os.write(self.req_w, struct.pack("<I", len(payload)) + payload)
        self.requests += 1
        r, _, _ = select.select([self.rsp_r], [], [], timeout)
        if not r:
            raise TimeoutError("pristine reference did not answer")
        (n,) = struct.unpack("<I", self._read_exact(self.rsp_r, 4))
        return pickle.loads(self._read_exact(self.rsp_r, n))

    def close(self):
        try:
            os.close(self.req_w)
            os.close(self.rsp_r)
            os.waitpid(self.pid, 0)
        except OSError:
            pass


def values_agree(v, w, rtol=1e-9):
    """Same shape and allclose with a scale-relative absolute floor; NaN == NaN."""
    v = np.asarray(v)
    w = np.asarray(w)
    if v.shape != w.shape:
        return False
    if v.size == 0:
        return True
    fin = np.isfinite(w)
    scale = float(np.max(np.abs(w[fin]))) if np.any(fin) else 0.0
    with np.errstate(all="ignore"):
        return bool(np.allclose(v, w, rtol=rtol, atol=1e-12 * scale, equal_nan=True))


# ---------------------------------------------------------------------------
# M06: canonical two-sided model
# ---------------------------------------------------------------------------

def n_onesided(M):
    return M // 2 + 1 if M % 2 == 0 else (M + 1) // 2


def canonical_from(stored, sides, M):
    """Two-sided spectrum T[0..M-1] in DFT order from a vector stored in `sides`."""
    v = np.asarray(stored)
    v = v.astype(complex) if np.iscomplexobj(v) else v.astype(float)
    if sides == "twosided":
        assert len(v) == M
        return v.copy()
    if sides == "centerdc":
        assert len(v) == M
        T = np.empty(M, dtype=v.dtype)
        for j in range(M):
            T[(j - M // 2) % M] = v[j]
        return T
    assert len(v) == n_onesided(M)
    T = np.zeros(M, dtype=v.dtype)
    T[0] = v[0]
    for k in range(1, len(v)):
        if M % 2 == 0 and k == M // 2:
            T[k] = v[k]
        else:
            T[k] = v[k] / 2.0
            T[M - k] = v[k] / 2.0
    return T


def render(T, sides):
    M = len(T)
    if sides == "twosided":
        return T.copy()
    if sides == "centerdc":
        return np.array([T[(j - M // 2) % M] for j in range(M)])
    n = n_onesided(M)
    out = np.empty(n, dtype=T.dtype)
    out[0] = T[0]
    for k in range(1, n):
        if M % 2 == 0 and k == M // 2:
            out[k] = T[k]
        else:
            out[k] = T[k] + T[M - k]
    return out


def bins_of(sides, M):
    """The DFT bin (signed for centerdc) each entry of the representation names."""
    if sides == "twosided":
        return list(range(M))
    if sides == "centerdc":
        return [j - M // 2 for j in range(M)]
    return list(range(n_onesided(M)))
