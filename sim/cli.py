"""CLI behind /verif/check.  Exit codes: 0 held / only known findings; 1 violation; 2 harness error."""
import argparse
import json
import os
import subprocess
import sys
import time

HERE = os.path.dirname(os.path.abspath(__file__))
VERIF = os.path.dirname(HERE)
if VERIF not in sys.path:
    sys.path.insert(0, VERIF)

from sim import engine, sut, shrink  # noqa: E402
from sim import evidence as ev  # noqa: E402

DEFAULT_SEED = {"quick": 20261002, "thorough": 7}


def plans(mname, tier):
    m = engine.machine_by_name(mname)
    return m.PLANS[tier]


def load_known():
    path = os.path.join(VERIF, "known_findings.json")
    if not os.path.exists(path):
        return []
    with open(path) as f:
        return json.load(f).get("findings", [])


def match_known(prop, clause, culprit, known):
    for k in known:
        if k.get("status") != "known" or k.get("property") != prop:
            continue
        mt = k.get("match", {})
        if mt.get("clause") and mt["clause"] != clause:
            continue
        if mt.get("cls") and culprit.get("cls") not in mt["cls"]:
            continue
        if "cplx" in mt and mt["cplx"] != culprit.get("cplx"):
            continue
        if mt.get("ops_contain") and not all(o in culprit.get("ops", []) for o in mt["ops_contain"]):
            continue
        if mt.get("ops_only") and not all(o in mt["ops_only"] for o in culprit.get("ops", [])):
            continue
        return k
    return None


PROBE_INFO = {}


def probe_pdaniell(replaying=False, quiet=False):
    """Fixed probe (sim/probes.py): pdaniell's frequencies() against its psd.  Returns 0, 1 or 2; what it saw
    is left in PROBE_INFO for the evidence file.  quiet: decide only, print later (second call)."""
    from sim import probes
    engine.ensure_ctx({})
    bad = engine.in_pristine_child(probes.pdaniell_freq_len)
    if isinstance(bad, dict):
        print("HARNESS-ERROR: pdaniell probe: " + bad.get("fatal", "?")[-800:])
        PROBE_INFO["pdaniell_freq_len"] = {"outcome": "harness-error"}
        return 2
    PROBE_INFO["pdaniell_freq_len"] = {
        "cases": [list(c) for c in probes.CASES], "failing_cases": bad,
        "outcome": "held" if not bad else "fails (listed as known finding pdaniell-freq-len)" if any(
            k.get("status") == "known" and k.get("id") == "pdaniell-freq-len" for k in load_known()) else "VIOLATION",
        "ran": "real code (spectrum.pdaniell) in a pristine forked child, after the seeded batch"}
    if quiet:
        return 0 if not bad else (0 if "known" in PROBE_INFO["pdaniell_freq_len"]["outcome"] else 1)
    if not bad:
        if replaying:
            print("replay: no violation (pdaniell: len(frequencies()) == len(psd) in all probe cases)")
        return 0
    listed = [k for k in load_known() if k.get("status") == "known" and k.get("id") == "pdaniell-freq-len"]
    first = bad[0]
    detail = ("pdaniell(%s[%d], P=%d, NFFT=%d): len(psd)=%d but len(frequencies())=%d after the first read (%d of %d "
              "probe cases)" % ("complex" if first["complex"] else "real", first["N"], first["P"], first["N"],
                                first["len_psd"], first["len_frequencies"], len(bad), len(probes.CASES)))
    if listed:
        print("KNOWN-FINDING: property=C07 %s -- %s" % (listed[0]["what_fails"], detail))
        return 0
    path = os.path.join(VERIF, "replays", "C07", "probe_pdaniell_freq_len.json")
    os.makedirs(os.path.dirname(path), exist_ok=True)
    with open(path, "w") as f:
        json.dump({"kind": "probe", "probe": "pdaniell_freq_len", "property": "C07", "clause": "freq_len",
                   "failing_cases": bad}, f, indent=1)
    print("violation clause=freq_len: " + detail)
    print("VIOLATION property=C07 replay=%s" % path)
    return 1


def replay_file(path, quiet=False):
    with open(path) as f:
        rep = json.load(f)
    if rep.get("kind") == "probe":
        return probe_pdaniell(replaying=True)
    m = engine.machine_by_name(rep["machine"])
    if rep.get("kind") == "sequence":
        engine.ensure_ctx(rep.get("opts", {}))
        res = engine.in_pristine_child(engine.replay_run_sequence, rep["machine"], rep["base_seed"], rep["stratum"],
                                       rep["indices"])
        if isinstance(res, dict):
            print("HARNESS-ERROR: " + res.get("fatal", "?")[-800:])
            return 2
        out = {"replayed": path, "violation": None if res is None else {"clause": res[0], "step": res[1], "detail": res[2]},
               "expected_clause": rep["clause"], "digest": None if res is None else res[3]}
        print("REPLAY " + json.dumps(out))
        if res is None:
            if not quiet:
                print("replay: no violation (property held on this sequence of runs)")
            return 0
        if not quiet:
            print("sequence of %d runs of stratum %s (seed %d); the last one violates" % (len(rep["indices"]), rep["stratum"], rep["base_seed"]))
            print("clause %s at step %d: %s" % (res[0], res[1], res[2]))
            print("VIOLATION property=%s replay=%s" % (rep["property"], path))
        return 1
    opts = {"pristine": rep["clause"].startswith("hidden_state")}
    ctx = engine.ensure_ctx(opts)
    run = m.replay(rep["cfg"], rep["ops"], pristine=ctx.get("pristine"), pristine_final=opts["pristine"])
    v = run.violation
    res = {"replayed": path, "violation": None if v is None else {"clause": v.clause, "step": v.step, "detail": v.detail},
           "expected_clause": rep["clause"], "digest": run.digest() if run.init_error is None else None}
    print("REPLAY " + json.dumps(res))
    if v is None:
        if not quiet:
            print("replay: no violation (property held on this history)")
        return 0
    if not quiet:
        print("history: " + m.describe(rep["cfg"], rep["ops"]))
        print("clause %s at step %d: %s" % (v.clause, v.step, v.detail))
        print("VIOLATION property=%s replay=%s" % (rep["property"], path))
    return 1


def confirm_in_fresh_process(path, clause):
    """Replay must reproduce the same clause in a fresh interpreter, twice, with identical digests."""
    digs = []
    for _ in range(2):
        p = subprocess.run([sys.executable, "-B", os.path.join(HERE, "cli.py"), "replay", path, "--quiet"],
                           stdout=subprocess.PIPE, stderr=subprocess.PIPE, timeout=300)
        line = [l for l in p.stdout.decode().splitlines() if l.startswith("REPLAY ")]
        if p.returncode != 1 or not line:
            return False, "replay exit %d: %s" % (p.returncode, p.stderr.decode()[-500:])
        res = json.loads(line[-1][7:])
        if not res["violation"] or res["violation"]["clause"] != clause:
            return False, "replay gave %r, expected clause %s" % (res["violation"], clause)
        digs.append(res["digest"])
    if digs[0] != digs[1]:
        return False, "replay digests differ between two fresh processes"
    return True, digs[0]


def _replay_child(mname, cfg, ops, want_pristine):
    """Executed in a pristine child: replay and report (clause, step, detail) or None."""
    m = engine.machine_by_name(mname)
    run = m.replay(cfg, ops, pristine=engine._CTX.get("pristine"), pristine_final=want_pristine)
    v = run.violation
    return None if v is None else (v.clause, v.step, v.detail)


def handle_violations(mname, batch, max_buckets=8, tries_per_bucket=4):
    """Minimise, write replay files, confirm in a fresh process, match known findings.  The driver
    process itself never executes code under test: every replay of the minimisation runs in its own
    child forked from the pristine driver, so replays cannot contaminate each other through
    process-global state of the code under test."""
    m = batch.m
    known = load_known()
    buckets = {}
    for v in batch.res["violations"]:
        key = (v["clause"], v["cfg"].get("cls", v["cfg"].get("kind")))
        buckets.setdefault(key, []).append(v)
    reports = []
    engine.ensure_ctx(dict(batch.opts, pristine=bool(batch.opts.get("pristine")) or
                           any(k[0].startswith("hidden_state") for k in buckets)))
    os.makedirs(os.path.join(VERIF, "replays", mname), exist_ok=True)
    # one bucket per clause first, then a second per clause, ... up to max_buckets
    by_clause = {}
    for key in sorted(buckets):
        by_clause.setdefault(key[0], []).append(key)
    order = []
    depth = 0
    while len(order) < min(max_buckets, len(buckets)):
        for c in sorted(by_clause):
            if depth < len(by_clause[c]) and len(order) < max_buckets:
                order.append(by_clause[c][depth])
        depth += 1
    for key in order:
        vs = sorted(buckets[key], key=lambda v: (len(v["ops"]), v["seed"]))
        report = None
        for v in vs[:tries_per_bucket]:
            hidden = v["clause"].startswith("hidden_state")

            def replay_clause(cfg, ops, _h=hidden):
                res = engine.in_pristine_child(_replay_child, mname, cfg, ops, _h)
                if isinstance(res, dict) and "fatal" in res:
                    return None
                return None if res is None else res[0]

            cfg, ops, n = shrink.minimise(m, v["cfg"], v["ops"], v["clause"], v["step"], replay_clause=replay_clause)
            res = engine.in_pristine_child(_replay_child, mname, cfg, ops, hidden)
            detail = res[2] if isinstance(res, tuple) else v["detail"]
            rep = {"property": m.PROPERTY, "machine": mname, "clause": v["clause"], "detail": detail,
                   "seed": v["seed"], "stratum": v["stratum"], "index": v["index"], "base_seed": batch.base_seed,
                   "cfg": cfg, "ops": ops, "history": m.describe(cfg, ops), "original_ops": len(v["ops"]),
                   "minimised_ops": len(ops), "shrink_replays": n, "same_bucket_runs": len(vs)}
            path = os.path.join(VERIF, "replays", mname, "%s_%x.json" % (v["clause"].replace(":", "_"), v["seed"]))
            with open(path, "w") as f:
                json.dump(rep, f, indent=1)
            ok, info = confirm_in_fresh_process(path, v["clause"])
            cul = m.culprit(cfg, ops)
            kf = match_known(m.PROPERTY, v["clause"], cul, known) if ok else None
            report = {"bucket": list(key), "count": len(vs), "replay": path, "confirmed": ok, "info": info,
                      "known": kf, "history": rep["history"], "detail": rep["detail"], "culprit": cul,
                      "clause": v["clause"]}
            if ok:
                break
        if report is not None and not report["confirmed"]:
            # The failure does not reproduce from the run's own history: it may depend on process-global
            # state left behind by earlier runs of the same chunk (the chunk started in a pristine child).
            # Treat the chunk prefix as one long history: replay it, minimise the predecessors, confirm.
            seq = _sequence_fallback(mname, m, batch, vs[0], known)
            if seq is not None:
                report = dict(seq, bucket=list(key), count=len(vs))
        reports.append(report)
    return reports, len(buckets)


def _sequence_fallback(mname, m, batch, v, known):
    clause = v["clause"]
    prefix = v.get("chunk_prefix") or [v["index"]]

    def fails(indices):
        res = engine.in_pristine_child(engine.replay_run_sequence, mname, batch.base_seed, v["stratum"], indices)
        return isinstance(res, tuple) and res[0] == clause

    if not fails(prefix):
        return None
    last = prefix[-1]
    pred = shrink.ddmin(prefix[:-1], lambda p: fails(list(p) + [last]), max_tests=120) if len(prefix) > 2 else prefix[:-1]
    if len(pred) == 1 and fails([last]):
        pred = []
    indices = list(pred) + [last]
    rep = {"kind": "sequence", "property": m.PROPERTY, "machine": mname, "clause": clause, "detail": v["detail"],
           "base_seed": batch.base_seed, "stratum": v["stratum"], "indices": indices, "opts": batch.opts,
           "history": "runs %s of stratum %s in one process; last run: %s" % (indices, v["stratum"], m.describe(v["cfg"], v["ops"])),
           "original_runs_in_chunk_prefix": len(prefix)}
    path = os.path.join(VERIF, "replays", mname, "%s_seq_%x.json" % (clause.replace(":", "_"), v["seed"]))
    with open(path, "w") as f:
        json.dump(rep, f, indent=1)
    ok, info = confirm_in_fresh_process(path, clause)
    cul = m.culprit(v["cfg"], v["ops"])
    return {"replay": path, "confirmed": ok, "info": info, "known": match_known(m.PROPERTY, clause, cul, known) if ok else None,
            "history": rep["history"], "detail": v["detail"], "culprit": cul, "clause": clause}


def cmd_check(mname, args):
    tier = args.tier or os.environ.get("VERIF_TIER") or "quick"
    seed = args.seed if args.seed is not None else int(os.environ.get("VERIF_SEED", DEFAULT_SEED[tier]))
    workers = args.workers or int(os.environ.get("VERIF_WORKERS", 0)) or min(16, os.cpu_count() or 1)
    m = engine.machine_by_name(mname)
    plan = dict(m.PLANS[tier])
    opts = dict(plan.get("opts", {}))
    scale = args.scale if args.scale is not None else float(os.environ.get("VERIF_SCALE", 1.0))
    if scale != 1.0:
        # budget scaling for self-tests and mutant sweeps: fewer runs of every stratum, same generators
        plan["strata"] = [(s, max(50, int(min(c, (m.stratum_size(s) or c)) * scale))) for s, c in plan["strata"]]
    if args.pristine is not None:
        opts["pristine"] = bool(args.pristine)
    t0 = time.time()
    print("check %s tier=%s VERIF_SEED=%d workers=%d repo=%s" % (mname, tier, seed, workers, sut.REPO))
    sys.stdout.flush()
    batch = engine.Batch(mname, seed, workers, opts)
    complete = batch.run_plan(plan["strata"], wall_cap_s=plan.get("wall_cap_s"))
    t_batch = time.time() - t0
    st = None
    if not batch.res["harness"]:
        st = engine.determinism_selftest(mname, seed, batch.selftest_plan, batch.full_digests, opts)
    reports, nbuckets = ([], 0)
    if batch.res["violations"]:
        reports, nbuckets = handle_violations(mname, batch)
    wall = time.time() - t0
    new = [r for r in reports if r["confirmed"] and not r["known"]]
    knownhits = [r for r in reports if r["confirmed"] and r["known"]]
    unconfirmed = [r for r in reports if not r["confirmed"]]
    if m.PROPERTY == "C07":
        probe_pdaniell(quiet=True)
    ev.write(mname, m, tier, seed, workers, batch, st, reports, wall, t_batch, complete, plan, probes=PROBE_INFO)
    for r in knownhits:
        print("KNOWN-FINDING: property=%s %s" % (m.PROPERTY, r["known"].get("what_fails", r["detail"])))
    rc = 0
    if m.PROPERTY == "C07":
        rc = probe_pdaniell()
    for r in new:
        print("violation clause=%s runs_in_bucket=%d: %s" % (r["clause"], r["count"], r["detail"]))
        print("  minimised history: %s" % r["history"])
        print("VIOLATION property=%s replay=%s" % (m.PROPERTY, r["replay"]))
        rc = 1
    if nbuckets > len(reports):
        print("note: %d further violation buckets not minimised (see evidence)" % (nbuckets - len(reports)))
    r = batch.res
    print("%s: %d runs (%d n/a skipped), %d steps, %d checked reads, %d violating runs, %.1fs, %.0f runs/h"
          % (mname, r["runs"], r["skipped"], r["steps"], r["checked_reads"], len(r["violations"]), wall,
             r["runs"] / max(t_batch, 1e-9) * 3600))
    if rc == 0:
        if batch.res["harness"] or unconfirmed or (st is not None and not st["ok"]) or not complete:
            for h in batch.res["harness"][:3]:
                print("HARNESS-ERROR: %s" % h["trace"][-1500:])
            for u in unconfirmed:
                print("HARNESS-ERROR: failure did not replay: %s (%s)" % (u["replay"], u["info"]))
            if st is not None and not st["ok"]:
                print("HARNESS-ERROR: determinism self-test failed: %s" % json.dumps(st)[:1500])
            rc = 2
    return rc


def main(argv=None):
    ap = argparse.ArgumentParser(prog="check")
    sub = ap.add_subparsers(dest="cmd", required=True)
    for name in ("C06", "C07"):
        p = sub.add_parser(name)
        p.add_argument("--tier", choices=["quick", "thorough"])
        p.add_argument("--seed", type=int)
        p.add_argument("--workers", type=int)
        p.add_argument("--scale", type=float, help="multiply every stratum's run count (self-tests)")
        p.add_argument("--pristine", type=int, choices=[0, 1], help="override the tier's pristine-reference setting")
    p = sub.add_parser("replay")
    p.add_argument("path")
    p.add_argument("--quiet", action="store_true")
    p = sub.add_parser("digests")
    p.add_argument("machine")
    p.add_argument("--seed", type=int, required=True)
    p.add_argument("--plan", required=True)
    p.add_argument("--opts", default="{}")
    sub.add_parser("setup")
    p = sub.add_parser("selftest")
    p.add_argument("--seeds", type=int, default=400)
    p.add_argument("--mutants", action="store_true")
    p.add_argument("--scale", type=float, default=0.25)
    p.add_argument("--only", help="comma-separated mutant ids")
    p.add_argument("--model", action="store_true", help="check the canonical reference model against numpy.fft")
    args = ap.parse_args(argv)
    if args.cmd in ("C06", "C07"):
        return cmd_check(args.cmd, args)
    if args.cmd == "replay":
        return replay_file(args.path, args.quiet)
    if args.cmd == "digests":
        out = engine.digests_for(args.machine, args.seed, json.loads(args.plan), json.loads(args.opts))
        print(json.dumps(out))
        return 0
    if args.cmd == "setup":
        so = sut.build_dpss()
        sp = sut.load()
        print("setup ok: spectrum from %s, mydpss %s" % (os.path.dirname(sp.__file__), so))
        return 0
    if args.cmd == "selftest":
        from sim import selftest
        return selftest.main(args)
    return 2


if __name__ == "__main__":
    try:
        rc = main()
    except SystemExit:
        raise
    except BaseException:
        import traceback
        traceback.print_exc()
        print("HARNESS-ERROR: unhandled exception in the check driver")
        rc = 2
    sys.stdout.flush()
    sys.exit(rc)
