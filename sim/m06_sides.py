"""M06 -- C06 "side conversions are lossless, length-consistent and axis-aligned".

One simulated caller applies a history of `sides` assignments, get_converted_psd calls,
re-based psd assignments, reads and rejected operations to one real Spectrum object that
holds a stored PSD; alongside, chains of the stateless tools helpers and arma2psd
(sides='centerdc') are driven on detached vectors.  Every observation is compared with
the rendering of ONE canonical two-sided model (refmodel.canonical_from / render) fixed
when the PSD was stored, so path independence is implied by every step matching it and
corruption by an earlier step cannot be absorbed.
"""
import random

import numpy as np

from . import sut, refmodel
from .common import enc_array, dec_array, arr_digest, log_digest, derive_seed
from . import m07_cache as m07

PROPERTY = "C06"
SIDES = ("onesided", "twosided", "centerdc")
QUICK_MS = list(range(1, 21)) + [31, 32, 33, 64]
ALL_MS = list(range(1, 65))


class Violation(Exception):
    def __init__(self, clause, step, detail):
        Exception.__init__(self, "%s at step %d: %s" % (clause, step, detail))
        self.clause = clause
        self.step = step
        self.detail = detail


def default_sides(cplx):
    return "twosided" if cplx else "onesided"


def exact_equal(a, b):
    a = np.asarray(a)
    b = np.asarray(b)
    return a.shape == b.shape and bool(np.all((a == b) | (np.isnan(a) & np.isnan(b))))


def close(a, b, rtol=1e-12):
    a = np.asarray(a)
    b = np.asarray(b)
    if not (np.iscomplexobj(a) or np.iscomplexobj(b)):
        a = a.astype(float)
        b = b.astype(float)
    if a.shape != b.shape:
        return False
    scale = float(np.max(np.abs(b))) if b.size else 0.0
    return bool(np.allclose(a, b, rtol=rtol, atol=rtol * scale, equal_nan=True))


def gen_vector(rng, n, kind, basis_index=0):
    if kind == "basis":
        v = np.zeros(n)
        v[basis_index % n] = 4.0
        return v
    if kind == "distinct":
        return np.array([4.0 * (2 * i + 1) for i in range(n)])
    if kind == "random":
        return np.array([rng.uniform(0.001, 1000.0) for _ in range(n)])
    if kind == "ramp":
        return np.array([float(i + 1) for i in range(n)])
    if kind == "withinf":
        # PSDs of models with a pole or zero on the unit circle contain inf / 0 at single bins
        v = np.array([rng.uniform(0.5, 100.0) for _ in range(n)])
        for _ in range(rng.randrange(1, 3)):
            v[rng.choice([0, n - 1, rng.randrange(0, n)])] = rng.choice([float("inf"), 0.0, float("inf"), float("nan")])
        return v
    if kind == "signed":
        # cross-spectra and differences of PSDs have negative entries; the conversions are linear
        return np.array([rng.uniform(-100.0, 100.0) for _ in range(n)])
    if kind == "narrow":
        # narrow dtypes: folding two values must not wrap around or lose precision in the input dtype
        dt = rng.choice(["int8", "uint8", "int16", "float32"])
        if dt == "float32":
            return np.array([rng.uniform(1.0, 3.0e7) for _ in range(n)], dtype=np.float32)
        hi = {"int8": 127, "uint8": 255, "int16": 32767}[dt]
        return np.array([rng.randrange(hi // 2, hi + 1) for _ in range(n)], dtype=np.dtype(dt))
    if kind == "cvalued":
        return np.array([complex(rng.uniform(0.5, 100.0), rng.uniform(-1.0, 1.0)) for _ in range(n)])
    if kind == "ints":
        # integer dtype with odd values: halving must not truncate
        return np.array([2 * rng.randrange(1, 50) + 1 for _ in range(n)], dtype=np.int64)
    raise KeyError(kind)


class Run(object):
    def __init__(self, cfg):
        self.cfg = cfg
        m07.seed_global_rngs(cfg.get("est", cfg))
        self.ops = []
        self.log = []
        self.stats = {}
        self.states = set()
        self.transitions = set()
        self.violation = None
        self.nontrivial = False
        self.checked_reads = 0
        self.init_error = None
        self.p = None
        self.paths = []          # successful conversion targets, in order
        self.pending = False     # an invalidating assignment was accepted since the PSD was stored
        self.dead = False        # the object's configuration became uncomputable: only psd= revives it
        self.held = []           # (step, description, array handed out, copy of its values at that time)
        self.cplx = bool(cfg["cplx"])
        sp = sut.load()
        try:
            if cfg["kind"] == "base":
                M = cfg["M"]
                N = cfg.get("N", max(M, 2))
                data = np.arange(1, N + 1, dtype=float)
                if self.cplx:
                    # complex data; sometimes of complex dtype with an identically zero imaginary part (the kind is
                    # decided by the dtype, as the kernels do)
                    data = data.astype(complex) if cfg.get("zimag") else data * (1 + 1j)
                self.p = sp.Spectrum(data, NFFT=M, sampling=cfg.get("sampling", 1.0))
                v = dec_array(cfg["vec"])
                self.p.psd = v
                self.cls = "Spectrum"
            else:
                ecfg = cfg["est"]
                self.cls = ecfg["cls"]
                self.p = sut.construct(self.cls, m07.initial_snapshot(ecfg), ecfg["const"])
                v = np.array(self.p.psd)
                # complex-data_y cross spectra: only the lengths and labels are modelled (see _rebase)
            self._rebase(v)
        except Violation as v_:
            self.violation = v_
        except Exception as e:
            self.init_error = type(e).__name__ + ": " + str(e)[:80]

    def close(self):
        pass

    def bump(self, k, n=1):
        self.stats[k] = self.stats.get(k, 0) + n

    # -- model -----------------------------------------------------------
    def _rebase(self, stored, approx=False):
        """approx=True: the stored vector is a fresh object's computation of the same estimate, which an
        implementation may reach by another arithmetic route (e.g. rescaling instead of recomputing): values
        are then compared to 1e-9 instead of bit for bit."""
        p = self.p
        self.approx = approx
        # real data: NFFT is not touched by a psd assignment; complex data: documented to become len(psd)
        self.M = len(stored) if self.cplx else int(p.NFFT)
        self.store_sides = default_sides(self.cplx)
        self.stored = np.array(stored, dtype=float).copy() if not np.iscomplexobj(stored) else np.array(stored).copy()
        self.model_ok = True
        if np.iscomplexobj(self.stored):
            # MultiTapering on complex data hands out a complex-typed array, with method='adapt' even with
            # non-zero imaginary parts (C19's business).  For complex DATA only twosided <-> centerdc exist,
            # pure permutations, so the model simply carries the complex values; for real data a
            # complex-valued one-sided vector is not modelled.
            if np.all(self.stored.imag == 0):
                self.stored = self.stored.real.copy()
            elif not self.cplx:
                self.model_ok = False
                self.stored = self.stored.real.copy()
        if len(self.stored) != len(refmodel.bins_of(self.store_sides, self.M)):
            # a computed PSD whose length is not that of its own representation is already the `len` clause
            raise Violation("len", len(self.ops), "the %s PSD of %s data has %d values, frequencies(%r) for NFFT=%d has %d"
                            % ("computed" if self.cfg["kind"] == "est" else "stored", "complex" if self.cplx else "real",
                               len(self.stored), self.store_sides, self.M, len(refmodel.bins_of(self.store_sides, self.M))))
        self.T = refmodel.canonical_from(self.stored, self.store_sides, self.M)
        self.sides = self.store_sides
        # a PSD handed in as float32 may legitimately be processed in float32
        self.rtol = 1e-6 if np.asarray(stored).dtype == np.float32 else (1e-9 if approx else 1e-12)

    def abstate(self):
        return (self.cls, self.cplx, self.M % 2, self.sides)

    # -- the checks --------------------------------------------------------
    def _check_vector(self, idx, what, got, target, freqs, df):
        """len / axis / align / power / restore for a vector claimed to be in representation `target`."""
        M = self.M
        T = self.T
        got = np.asarray(got)
        if np.iscomplexobj(got) and not np.iscomplexobj(T):
            if np.any(got.imag != 0):
                return Violation("align", idx, "%s has non-zero imaginary parts" % what)
            got = got.real
        # len
        if len(got) != len(freqs):
            return Violation("len", idx, "%s has %d values but frequencies(%r) has %d (NFFT=%d)"
                             % (what, len(got), target, len(freqs), M))
        # axis: on the grid, complete set of bins for the representation
        bins = []
        for f in freqs:
            q = f / df
            b = int(round(q))
            if abs(q - b) > 1e-9 * max(1.0, abs(q)):
                return Violation("axis", idx, "frequencies(%r) contains %r, which is not a multiple of df=%r "
                                 "(NFFT=%d)" % (target, f, df, M))
            bins.append(b)
        if target == "twosided":
            okaxis = bins == list(range(M))
        elif target == "onesided":
            okaxis = bins == list(range(refmodel.n_onesided(M)))
        else:
            okaxis = (sorted(b % M for b in bins) == list(range(M)) and all(b2 - b1 == 1 for b1, b2 in zip(bins, bins[1:]))
                      and all(abs(b) <= M / 2.0 for b in bins))
        if not okaxis:
            return Violation("axis", idx, "frequencies(%r) names bins %s, not the complete axis of that "
                             "representation for NFFT=%d" % (target, bins[:8], M))
        # align: entry j carries the model value of the bin its reported frequency names
        if target == "onesided":
            folded = refmodel.render(T, "onesided")
            expect = np.array([folded[b] for b in bins])
        else:
            expect = np.array([T[b % M] for b in bins])
        permutation_only = (self.store_sides != "onesided" and target != "onesided") or target == self.store_sides
        if permutation_only and not self.approx:
            okv = exact_equal(got, expect)
        else:
            okv = close(got, expect, rtol=self.rtol)
        if not okv:
            bad = [j for j in range(len(got)) if not close(got[j:j + 1], expect[j:j + 1], rtol=self.rtol)][:4]
            return Violation("align", idx, "%s: entries %s (frequencies %s) hold %s, the source values at those "
                             "frequencies are %s (NFFT=%d, stored as %s)"
                             % (what, bad, [freqs[j] for j in bad], [complex(got[j]) if np.iscomplexobj(got) else float(got[j]) for j in bad],
                                [complex(expect[j]) if np.iscomplexobj(expect) else float(expect[j]) for j in bad], M, self.store_sides))
        # power
        s0 = complex(np.sum(self.stored)) if np.iscomplexobj(self.stored) else float(np.sum(self.stored))
        s1 = complex(np.sum(got)) if np.iscomplexobj(got) else float(np.sum(got))
        if abs(s1 - s0) > self.rtol * max(abs(s0), float(np.sum(np.abs(self.stored))), 1e-300) * max(1, len(got)):
            return Violation("power", idx, "%s sums to %r, the stored PSD to %r" % (what, s1, s0))
        # restore
        if target == self.store_sides and not self.approx and not exact_equal(got, self.stored):
            return Violation("restore", idx, "%s is back in the stored representation but is not bit-identical "
                             "to the stored values" % what)
        return None

    def _check_object(self, idx):
        """The object's own psd / sides / frequencies against the model."""
        p = self.p
        if p.sides != self.sides:
            return Violation("sides_attr", idx, "sides reports %r, expected %r" % (p.sides, self.sides))
        if not self.model_ok:
            return None
        if self.cplx and self.sides == "onesided":
            return None                   # undefined content (see _op_sides)
        self.checked_reads += 1
        if self.cplx and p.NFFT != self.M:
            return Violation("len", idx, "a PSD of %d values was stored for complex data but NFFT reports %r"
                             % (self.M, p.NFFT))
        return self._check_vector(idx, "psd (sides=%s)" % self.sides, p.psd, self.sides, p.frequencies(), p.df)

    # -- operations ---------------------------------------------------------
    def step(self, op, aname=None):
        idx = len(self.ops)
        self.ops.append(op)
        k = op["op"]
        p = self.p
        pre = self.abstate()
        viol = None
        outcome = "ok"
        entry = {"i": idx, "op": op if k not in ("setpsd", "helpers", "arma") else {"op": k, "d": arr_digest(
            dec_array(op["value"])) if k == "setpsd" else log_digest(op)[:16]}}
        try:
            if self.dead and k in ("sides", "conv", "read", "invalidate"):
                outcome = "skipped"
            elif k == "sides":
                viol, outcome = self._op_sides(idx, op)
            elif k == "conv":
                viol, outcome = self._op_conv(idx, op)
            elif k == "read":
                if self.pending:
                    # the read recomputes; documented: a recomputation stores the default representation
                    self.pending = False
                    self.sides = default_sides(self.cplx)
                    self.bump("probe:read_with_invalidation_pending")
                    try:
                        p.psd
                    except Exception as e:
                        if self.model_ok:
                            raise Violation("rejected_valid", idx, "psd raised %s although a fresh object with the "
                                            "same attribute values computes it" % type(e).__name__)
                        self.sides = p.sides
                        self.dead = True
                if self.model_ok or not self.pending:
                    viol = self._check_object(idx)
            elif k == "setpsd":
                v = dec_array(op["value"])
                p.psd = v.tolist() if op["value"].get("c") == "list" else v
                self.pending = False
                self.dead = False
                self._rebase(v)
                self.paths = []
                viol = self._check_object(idx)
            elif k == "invalidate":
                viol, outcome = self._op_invalidate(idx, op)
            elif k == "plot":
                viol, outcome = self._op_plot(idx, op)
            elif k == "copy":
                # the caller continues with a copy of the object (shallow or deep): the copy is an object in
                # its own right and every clause applies to it
                import copy as _copy
                self.p = (_copy.deepcopy if op.get("deep") else _copy.copy)(p)
                p = self.p
                if not self.pending:
                    viol = self._check_object(idx)
            elif k == "noop_assign":
                # an attribute assigned its current value (possibly under another spelling: NFFT=None while
                # NFFT equals the data length, 'nextpow2' while it already is that power of two): nothing an
                # up-to-date PSD depends on changed, so its representation must be left alone
                a = op["attr"]
                val = op["value"]
                if val == "<current>":
                    val = getattr(p, a)
                try:
                    setattr(p, a, val)
                except Exception as e:
                    outcome = "raised:" + type(e).__name__
                if not self.pending:
                    viol = self._check_object(idx)
            elif k == "helpers":
                viol = self._op_helpers(idx, op)
            elif k == "arma":
                viol = self._op_arma(idx, op)
            else:
                raise KeyError(k)
        except Violation as v:
            viol = v
        self.bump("op:%s:%s" % (k, outcome.split(":")[0]))
        entry["out"] = outcome
        if viol is None and k in ("sides", "conv", "setpsd", "read") and not self.pending and not self.dead \
                and outcome != "skipped":
            try:
                entry["psd"] = arr_digest(np.asarray(p.psd))
                entry["sides"] = p.sides
            except Exception as e:  # pragma: no cover
                entry["psd"] = "raised:" + type(e).__name__
        if viol is None:
            viol = self._check_held(idx)
        post = self.abstate()
        self.states.add(post)
        self.transitions.add((pre, k, op.get("value", op.get("sides")) if k in ("sides", "conv") else None,
                              outcome.split(":")[0]))
        self.log.append(entry)
        if len(set(self.paths)) >= 2:
            self.nontrivial = True
        if viol is not None:
            self.violation = viol
        return viol

    def _hold(self, idx, what, arr):
        if isinstance(arr, np.ndarray) and len(self.held) < 6:
            self.held.append((idx, what, arr, arr.copy()))

    def _check_held(self, idx):
        """`held_result`: a vector the object handed out (get_converted_psd) was the conversion of the PSD
        stored at that time; a later operation on the object must not rewrite it behind the caller's back,
        or "the PSD converted to s" that the caller holds silently becomes something else."""
        for at, what, arr, snap in self.held:
            if not exact_equal(arr, snap):
                return Violation("held_result", idx, "the vector returned by %s at step %d was changed in place by a "
                                 "later operation on the object" % (what, at))
        return None

    def _snapshot(self):
        p = self.p
        v = p.psd
        return (p.sides, None if v is None else np.array(v).copy(), p.NFFT)

    def _same(self, a, b):
        return a[0] == b[0] and a[2] == b[2] and exact_equal(a[1], b[1]) and a[1].dtype == b[1].dtype

    def _op_sides(self, idx, op):
        p = self.p
        val = op["value"]
        if isinstance(val, str):
            val = "".join(list(val))      # a run-time string (as read from a file or a GUI), not an interned literal
        target = default_sides(self.cplx) if val == "default" else val
        valid = val in SIDES or val == "default"
        undefined = valid and self.cplx and target == "onesided"
        if self.pending:
            return self._op_sides_pending(idx, op, val, target, valid, undefined)
        before = self._snapshot()
        try:
            p.sides = val
            exc = None
        except Exception as e:
            exc = e
        if exc is not None:
            self.bump("fault:rejected_conversion")
            if valid and not undefined:
                return Violation("rejected_valid", idx, "sides=%r was rejected with %s although it is a valid "
                                 "representation for %s data" % (val, type(exc).__name__,
                                                                "complex" if self.cplx else "real")), "raised"
            after = self._snapshot()
            if not self._same(before, after):
                # The statement does not say that a rejected assignment is a no-op, only that whatever
                # the object then reports is a faithful conversion: accept a consistent move to another
                # valid representation, flag anything else.
                self.bump("rejected_op_changed_object")
                if after[0] not in SIDES or (self.cplx and after[0] == "onesided"):
                    return Violation("reject_clean", idx, "rejected sides=%r (%s) left sides=%r"
                                     % (val, type(exc).__name__, after[0])), "raised"
                self.sides = after[0]
                v = self._check_object(idx)
                if v is not None:
                    v.clause = "reject_clean"
                    v.detail = "after the rejected sides=%r (%s): %s" % (val, type(exc).__name__, v.detail)
                return v, "raised"
            return self._check_object(idx), "raised:" + type(exc).__name__
        if not valid:
            # a more lenient implementation may accept further spellings; what they mean is not defined
            # by the statement, so stop examining this object
            self.model_ok = False
            self.sides = p.sides
            self.bump("invalid_sides_name_accepted")
            return None, "ok"
        if undefined:
            # A one-sided representation of a complex-data PSD is not defined by the statement, so what it
            # contains is not examined; but "returning to the original sides restores the original values"
            # holds for ANY sequence: the model is kept, and the next defined representation is checked.
            self.sides = p.sides
            self.bump("undefined_onesided_complex_accepted")
            return None, "ok"
        self.sides = target
        self.paths.append(target)
        return self._check_object(idx), "ok"

    def _op_plot(self, idx, op):
        """plot() is a read path: "we do not want to change the attribute itself" (its own comment).  Whether it
        succeeds or fails (a file name in a directory that does not exist), the object is left as it was."""
        p = self.p
        if self.pending:
            return None, "skipped"
        import pylab
        before = self._snapshot()
        kw = {}
        if op.get("fail"):
            kw["filename"] = "/nonexistent-directory-for-verif/x.png"
        try:
            try:
                p.plot(sides=op.get("sides"), norm=bool(op.get("norm")), **kw)
                out = "ok"
            finally:
                pylab.close("all")
        except Exception as e:
            out = "raised:" + type(e).__name__
        after = self._snapshot()
        if not self._same(before, after):
            return Violation("pure_accessor", idx, "plot(sides=%r, norm=%r)%s changed the object: sides %s -> %s, psd %s"
                             % (op.get("sides"), bool(op.get("norm")), " (which failed)" if out != "ok" else "",
                                before[0], after[0], "changed" if not exact_equal(before[1], after[1]) else "same")), out
        return None, out

    # -- conversions requested while an invalidation is pending ------------------------------------------
    # The stored PSD is obsolete.  Whatever brings it up to date stores the new estimate in the default
    # representation (documented); a `sides` assignment then converts THAT estimate, so "a sequence that
    # ends at sides s gives the direct conversion to s" of the current estimate.  The model was re-based
    # on a fresh object's default PSD when the invalidating assignment was accepted.  The object's psd is
    # never read by the harness while the invalidation is pending (a read is itself an event).
    def _op_invalidate(self, idx, op):
        p = self.p
        nfft_before = p.NFFT
        try:
            setattr(p, op["attr"], m07.dec_data(op["value"]) if op["attr"] == "data" else op["value"])
        except Exception as e:
            return None, "raised:" + type(e).__name__
        if op["attr"] == "NFFT" and p.NFFT == nfft_before and not self.pending:
            return self._check_object(idx), "ok"      # another spelling of the current value: nothing changed
        self.cplx = p.datatype == "complex"
        self.M = int(p.NFFT)
        try:
            ecfg = self.cfg["est"]
            fresh = sut.construct(self.cls, sut.snapshot(self.cls, p), ecfg["const"])
            v = np.array(fresh.psd)
        except Exception as e:
            # the new configuration cannot be computed at all: nothing to convert any more
            self.model_ok = False
            self.pending = True
            self.bump("invalidate_to_uncomputable")
            return None, "ok"
        keep = self.sides
        self._rebase(v, approx=True)
        # the label is only reset when the recomputation happens - except that an NFFT change resets it
        # at once (documented: "If NFFT is changed, sides is reset")
        self.sides = keep if op["attr"] != "NFFT" else p.sides
        self.pending = True
        self.paths = []
        self.bump("probe:invalidation_while_sides_%s" % ("default" if keep == self.store_sides else "nondefault"))
        return None, "ok"

    def _op_sides_pending(self, idx, op, val, target, valid, undefined):
        p = self.p
        try:
            p.sides = val
            exc = None
        except Exception as e:
            exc = e
        self.bump("probe:sides_assigned_with_invalidation_pending")
        if exc is None and valid and not undefined and not self.model_ok:
            self.pending = False
            self.sides = target
            return self._check_object(idx), "ok"       # label only: the values are not modelled
        if exc is not None or not valid or undefined or not self.model_ok:
            # outcome not defined by the statement (rejected / undefined request, or nothing computable):
            # resolve the pending state with a read and carry on from the default representation
            self.pending = False
            try:
                p.psd
            except Exception:
                self.model_ok = False
                self.sides = p.sides
                self.dead = True
                return None, "ok" if exc is None else "raised"
            if exc is not None and valid and not undefined and self.model_ok:
                return Violation("rejected_valid", idx, "sides=%r was rejected with %s" % (val, type(exc).__name__)), "raised"
            self.sides = p.sides if (exc is None and (not valid or undefined)) else default_sides(self.cplx)
            if exc is None and (not valid or undefined):
                self.model_ok = False
                return None, "ok"
            return self._check_object(idx), "ok" if exc is None else "raised"
        self.pending = False
        self.sides = target
        self.paths.append(target)
        return self._check_object(idx), "ok"

    def _op_conv(self, idx, op):
        p = self.p
        s = "".join(list(op["sides"]))     # run-time string
        valid = s in SIDES
        undefined = valid and self.cplx and s == "onesided"
        if self.pending:
            # get_converted_psd brings the object up to date first: the object legitimately changes
            self.pending = False
            self.sides = default_sides(self.cplx)
            self.bump("probe:get_converted_with_invalidation_pending")
            try:
                got = p.get_converted_psd(s)
            except Exception as e:
                if valid and not undefined and self.model_ok:
                    return Violation("rejected_valid", idx, "get_converted_psd(%r) raised %s" % (s, type(e).__name__)), "raised"
                try:
                    p.psd
                    self.sides = p.sides
                except Exception:
                    self.model_ok = False
                    self.sides = p.sides
                    self.dead = True
                return None, "raised:" + type(e).__name__
            if not valid or undefined or not self.model_ok:
                self.sides = p.sides
                return None, "ok"
            self.checked_reads += 1
            v = self._check_vector(idx, "get_converted_psd(%r) after an invalidating assignment" % s, got, s,
                                   p.frequencies(s), p.df)
            if v is None:
                v = self._check_object(idx)
            return v, "ok"
        before = self._snapshot()
        try:
            got = p.get_converted_psd(s)
            exc = None
        except Exception as e:
            exc = e
        after = self._snapshot()
        if not self._same(before, after):
            return Violation("pure_accessor" if exc is None else "reject_clean", idx,
                             "get_converted_psd(%r) changed the object: sides %s -> %s, psd %s"
                             % (s, before[0], after[0], "changed" if not exact_equal(before[1], after[1]) else "same")), \
                "ok" if exc is None else "raised"
        if exc is not None:
            self.bump("fault:rejected_conversion")
            if valid and not undefined:
                return Violation("rejected_valid", idx, "get_converted_psd(%r) raised %s" % (s, type(exc).__name__)), "raised"
            return None, "raised:" + type(exc).__name__
        if not valid or undefined or not self.model_ok:
            return None, "ok"
        self.checked_reads += 1
        self.paths.append("conv:" + s)
        v = self._check_vector(idx, "get_converted_psd(%r) from sides=%s" % (s, self.sides), got, s,
                               p.frequencies(s), p.df)
        self._hold(idx, "get_converted_psd(%r)" % s, got)
        return v, "ok"

    # -- stateless helpers on a detached vector ---------------------------
    def _op_helpers(self, idx, op):
        sp = sut.load()
        tools = sp.tools
        raw = dec_array(op["value"])
        hrtol = 1e-6 if raw.dtype == np.float32 else 1e-12
        v = raw.astype(float)
        M = len(v)
        T = v.copy()             # canonical two-sided model of the detached vector
        rep = "twosided"
        cur = raw.copy()         # the first helper sees the vector with its own dtype (int or float)
        for j, name in enumerate(op["chain"]):
            self.bump("helper:" + name.split(":")[0])
            inp = cur.copy()
            try:
                if name == "twosided_2_centerdc":
                    out = tools.twosided_2_centerdc(cur)
                    exp = refmodel.render(T, "centerdc"); nrep = "centerdc"
                elif name == "centerdc_2_twosided":
                    out = tools.centerdc_2_twosided(cur)
                    exp = T.copy(); nrep = "twosided"
                elif name == "twosided_2_onesided":
                    out = tools.twosided_2_onesided(cur)
                    exp = refmodel.render(T, "onesided"); nrep = "onesided"
                elif name == "onesided_2_twosided":
                    # the parity flag as a caller would compute it: a Python bool, or a numpy bool from numpy ints
                    flag = (M % 2 == 0) if (idx + j) % 3 else np.bool_(M % 2 == 0)
                    out = tools.onesided_2_twosided(cur) if (M % 2 == 0 and (idx + j) % 2) else tools.onesided_2_twosided(cur, even=flag)
                    exp = T.copy(); nrep = "twosided"
                elif name == "cshift_half":
                    # the idiom the package documents for centring a two-sided PSD (correlog.py, modcovar.py)
                    out = tools.cshift(cur, len(cur) / 2)
                    exp = refmodel.render(T, "centerdc"); nrep = "centerdc"
                elif name.startswith("cshift:"):
                    kk = int(name.split(":")[1])
                    out = tools.cshift(cur, kk)
                    exp = np.roll(cur, kk); nrep = rep
                else:
                    raise KeyError(name)
            except Exception as e:
                return Violation("helper", idx, "tools.%s raised %s: %s on a %s vector of two-sided length %d"
                                 % (name, type(e).__name__, str(e)[:60], rep, M))
            out = np.asarray(out)
            if not exact_equal(inp, cur):
                # not demanded by the statement (the object-level consequence, a query that corrupts the
                # stored PSD, is what `pure_accessor` checks); counted only
                self.bump("helper_modified_its_input")
                cur = inp
            asym = name == "twosided_2_onesided" and not exact_equal(T[1:], T[1:][::-1])
            if len(out) != len(exp):
                return Violation("helper_len", idx, "tools.%s returned %d values for a %s vector of two-sided "
                                 "length %d, expected %d" % (name, len(out), rep, M, len(exp)))
            exact = name in ("twosided_2_centerdc", "centerdc_2_twosided", "cshift_half") or name.startswith("cshift")
            if not (exact_equal(out, exp) if exact else close(out, exp, rtol=hrtol)):
                bad = [i for i in range(len(out)) if not close(out[i:i + 1], exp[i:i + 1], rtol=hrtol)][:4]
                return Violation("helper_fold_asym" if asym else "helper", idx,
                                 "tools.%s on %s length-%d vector: entries %s are %s, expected %s"
                                 % (name, rep, M, bad, [float(out[i]) for i in bad], [float(exp[i]) for i in bad]))
            if not name.startswith("cshift:") and abs(float(np.sum(out.astype(float))) - float(np.sum(v))) > hrtol * float(np.sum(np.abs(v))) * M:
                return Violation("helper", idx, "tools.%s does not preserve the total power" % name)
            if name == "twosided_2_onesided":
                T = refmodel.canonical_from(exp, "onesided", M)
            if name.startswith("cshift:"):
                # a plain rotation: re-base the model on the rotated vector
                if rep == "twosided":
                    T = out.astype(float).copy()
                elif rep == "centerdc":
                    T = refmodel.canonical_from(out, "centerdc", M)
                else:
                    T = refmodel.canonical_from(out, "onesided", M)
            cur = out.astype(float)
            rep = nrep
            self.checked_reads += 1
        return None

    def _op_arma(self, idx, op):
        sp = sut.load()
        A = dec_array(op["A"]) if op.get("A") else None
        B = dec_array(op["B"]) if op.get("B") else None
        kw = dict(A=A, B=B, rho=op["rho"], T=op["T"], NFFT=op["NFFT"])
        if op.get("norm"):
            kw["norm"] = True
        try:
            two = sp.arma2psd(**kw)
            cen = sp.arma2psd(sides="centerdc", **kw)
        except Exception as e:
            return Violation("helper", idx, "arma2psd raised %s: %s" % (type(e).__name__, str(e)[:80]))
        self.bump("helper:arma2psd")
        self.checked_reads += 1
        exp = refmodel.render(np.asarray(two, dtype=float), "centerdc")
        if len(cen) != len(exp) or not close(np.asarray(cen, dtype=float), exp, rtol=1e-9):
            return Violation("helper", idx, "arma2psd(sides='centerdc', NFFT=%d) is not the default (two-sided) "
                             "output re-ordered onto the centre-DC axis" % op["NFFT"])
        return None

    def digest(self):
        return log_digest(self.log)


# ---------------------------------------------------------------------------
# generation
# ---------------------------------------------------------------------------

def base_cfg(rng, cplx, M, kind, basis_index=0):
    n = M if cplx else refmodel.n_onesided(M)
    vec = gen_vector(rng, n, kind, basis_index)
    return {"kind": "base", "cplx": bool(cplx), "M": M, "N": rng.choice([max(2, M), max(2, M // 2), M + 3]),
            "_grng": rng.getrandbits(32), "zimag": bool(cplx) and rng.random() < 0.15,
            "sampling": rng.choice([1.0, 1.0, 2.0, 1000.0, 0.5, 100.0, 44100.0, 8000.0, 0.1, 3.0, 1024.0]),
            "vec": enc_array(vec), "vkind": kind}


def est_cfg(rng):
    cls = rng.choice(sut.CLASS_NAMES)
    cplx = rng.random() < 0.5
    N = rng.randrange(12, 40)
    ecfg = m07.gen_cfg(rng, cls=cls, cplx=cplx, N=N, mode="fault_free")
    return {"kind": "est", "cplx": bool(cplx), "cls": cls, "est": ecfg}


SEQS = []
for L in range(1, 5):
    def _rec(prefix, L=L):
        if len(prefix) == L:
            SEQS.append(tuple(prefix))
            return
        for s in SIDES:
            _rec(prefix + [s])
    _rec([])
# 3 + 9 + 27 + 81 = 120


def sysA_layout(Ms):
    """[(cplx, M, vector kind, basis index)] for the systematic stratum."""
    out = []
    for cplx in (0, 1):
        for M in Ms:
            n = M if cplx else refmodel.n_onesided(M)
            for b in range(n):
                out.append((cplx, M, "basis", b))
            out.append((cplx, M, "distinct", 0))
            out.append((cplx, M, "random", 0))
    return out


_LAYOUTS = {}


def layout(stratum):
    if stratum not in _LAYOUTS:
        _LAYOUTS[stratum] = sysA_layout(QUICK_MS if stratum == "A" else ALL_MS)
    return _LAYOUTS[stratum]


N_SAMPLINGS = [1.0, 2.0, 0.5, 0.1, 3.0, 100.0, 1000.0, 1024.0, 8000.0, 44100.0, 48000.0]
N_MAX = {"N": 512, "Nfull": 4096}


def stratum_size(stratum):
    if stratum in ("A", "Afull"):
        return len(layout(stratum)) * len(SEQS)
    if stratum in N_MAX:
        return N_MAX[stratum] * len(N_SAMPLINGS) * 2
    return None


def run_numeric(seed, stratum, index):
    """Stratum N: every NFFT up to a bound x a list of sampling rates x data type, one fixed walk through
    all representations.  Axis arithmetic in floating point (k*df against sampling/2 and the like) goes
    wrong only for particular (NFFT, sampling) pairs, which random sizes rarely hit."""
    cplx = index % 2
    i = index // 2
    fs = N_SAMPLINGS[i % len(N_SAMPLINGS)]
    M = i // len(N_SAMPLINGS) + 1
    rng = random.Random(seed)
    n = M if cplx else refmodel.n_onesided(M)
    cfg = {"kind": "base", "cplx": bool(cplx), "M": M, "N": max(2, M), "sampling": fs,
           "vec": enc_array(gen_vector(rng, n, "distinct")), "vkind": "distinct"}
    run = Run(cfg)
    if run.init_error is not None or run.violation is not None:
        return run
    walk = ["centerdc", "twosided", "centerdc"] if cplx else ["centerdc", "onesided", "twosided", "onesided"]
    if run.step({"op": "read"}):
        return run
    for s in walk:
        if run.step({"op": "sides", "value": s}):
            return run
        for t in SIDES:
            if cplx and t == "onesided":
                continue
            if t != s and run.step({"op": "conv", "sides": t}):
                return run
    return run


def run_systematic(seed, stratum, index):
    lay = layout(stratum)
    cplx, M, kind, b = lay[index // len(SEQS)]
    seq = SEQS[index % len(SEQS)]
    if cplx and "onesided" in seq:
        return None
    rng = random.Random(seed)
    cfg = base_cfg(rng, cplx, M, kind, b)
    run = Run(cfg)
    if run.init_error is not None or run.violation is not None:
        return run
    if run.step({"op": "read"}):
        return run
    for s in seq:
        if run.step({"op": "sides", "value": s}):
            return run
        for t in SIDES:
            if cplx and t == "onesided":
                continue
            if run.step({"op": "conv", "sides": t}):
                return run
    return run


HELPERS_FROM = {
    "twosided": ["twosided_2_centerdc", "twosided_2_onesided", "cshift", "cshift_half"],
    "centerdc": ["centerdc_2_twosided", "cshift"],
    "onesided": ["onesided_2_twosided"],
}


def gen_helper_chain(rng, M):
    chain = []
    rep = "twosided"
    for _ in range(rng.randrange(1, 7)):
        name = rng.choice(HELPERS_FROM[rep])
        if name == "cshift":
            name = "cshift:%d" % rng.choice([0, 1, -1, 2, M // 2, M, M + 1, -M // 2 if M > 1 else 0, rng.randrange(-M, M + 1)])
        else:
            rep = {"twosided_2_centerdc": "centerdc", "centerdc_2_twosided": "twosided", "cshift_half": "centerdc",
                   "twosided_2_onesided": "onesided", "onesided_2_twosided": "twosided"}[name]
        chain.append(name)
    return chain


def gen_invalidate(rng, run):
    p = run.p
    kind = rng.choice(["sampling", "scale_by_freq", "data", "data", "NFFT", "NFFT", "dataflip"])
    if kind == "NFFT":
        cur = p.NFFT
        cands = [None, "nextpow2", p.N + 4, p.N + 5, 2 * p.N, cur + 1, cur + 2]
        return {"op": "invalidate", "attr": "NFFT", "value": rng.choice([c for c in cands if c != cur])}
    if kind == "dataflip":
        return {"op": "invalidate", "attr": "data", "value": m07.enc_data(m07.gen_signal(rng, p.N, not run.cplx))}
    if kind == "sampling":
        return {"op": "invalidate", "attr": "sampling", "value": rng.choice([x for x in (0.5, 1.0, 2.0, 4.0, 1000.0) if x != p.sampling])}
    if kind == "scale_by_freq":
        return {"op": "invalidate", "attr": "scale_by_freq", "value": not p.scale_by_freq}
    return {"op": "invalidate", "attr": "data", "value": m07.enc_data(m07.gen_signal(rng, p.N, run.cplx))}


def gen_op(rng, run):
    r = rng.random()
    cplx = run.cplx
    if run.cfg["kind"] == "est" and rng.random() < 0.18:
        return gen_invalidate(rng, run)
    r0 = rng.random()
    if r0 < 0.015 and not run.dead:
        return {"op": "plot", "sides": rng.choice([None, "onesided", "twosided", "centerdc"]), "norm": rng.random() < 0.5,
                "fail": rng.random() < 0.4}
    if r0 < 0.03 and not run.dead:
        return {"op": "copy", "deep": rng.random() < 0.3}
    if rng.random() < 0.08 and not run.dead:
        p = run.p
        cands = [("sampling", "<current>"), ("scale_by_freq", "<current>"), ("NFFT", "<current>"),
                 ("NFFT", 0), ("NFFT", -4), ("NFFT", 2.5)]           # the last three are rejected: nothing may move
        try:
            if p.NFFT == p.N:
                cands.append(("NFFT", None))
            if p.NFFT == 2 ** int(np.ceil(np.log2(max(p.N, 1)))) and p.N > 1:
                cands.append(("NFFT", "nextpow2"))
        except Exception:
            pass
        if run.cfg["kind"] == "base" and run.cplx is False:
            pass
        a, v = rng.choice(cands)
        return {"op": "noop_assign", "attr": a, "value": v}
    if r < 0.42:
        val = rng.choice(list(SIDES) + ["default", run.sides])
        if rng.random() < 0.08:
            val = rng.choice(["both", "one-sided", "", "centre", "TWOSIDED"])
        return {"op": "sides", "value": val}
    if r < 0.70:
        s = rng.choice(SIDES)
        if rng.random() < 0.04:
            s = rng.choice(["both", "default", ""])
        return {"op": "conv", "sides": s}
    if r < 0.78:
        return {"op": "read"}
    if r < 0.86:
        n = run.M if cplx else refmodel.n_onesided(run.M)
        if cplx and rng.random() < 0.4:
            n = rng.choice([1, 2, 3, 4, 5, 7, 8, 9, 16, 17, rng.randrange(1, 65)])
        kind = rng.choice(["basis", "distinct", "random", "ramp", "ints", "withinf", "signed", "narrow"])
        d = enc_array(gen_vector(rng, n, kind, rng.randrange(0, n)))
        if rng.random() < 0.3:
            d["c"] = "list"
        return {"op": "setpsd", "value": d}
    if r < 0.95:
        M = rng.choice([1, 2, 3, 4, 5, 6, 7, 8, 9, 15, 16, 17, 32, 33, rng.randrange(1, 65)])
        kind = rng.choice(["basis", "distinct", "random", "symmetric", "ints", "withinf", "signed", "narrow"])
        if kind == "symmetric":
            h = gen_vector(rng, refmodel.n_onesided(M), "random")
            v = refmodel.canonical_from(h, "onesided", M)
        else:
            v = gen_vector(rng, M, kind, rng.randrange(0, M))
        return {"op": "helpers", "value": enc_array(v), "chain": gen_helper_chain(rng, M)}
    A = [rng.uniform(-0.5, 0.5) for _ in range(rng.randrange(0, 4))]
    B = [rng.uniform(-0.5, 0.5) for _ in range(rng.randrange(0, 3))]
    if not A and not B:
        A = [rng.uniform(-0.5, 0.5)]
    return {"op": "arma", "A": enc_array(np.array(A)) if A else None, "B": enc_array(np.array(B)) if B else None,
            "rho": rng.choice([1.0, 0.5, 2.0]), "T": rng.choice([1.0, 2.0, 0.5]),
            "NFFT": rng.choice([4, 5, 8, 9, 16, 17, rng.randrange(4, 65)]), "norm": rng.random() < 0.3}


def run_random(seed):
    rng = random.Random(seed)
    if rng.random() < 0.6:
        M = rng.choice([1, 2, 3, 4, 5, 6, 7, 8, 9, 15, 16, 17, 31, 32, 33, 63, 64, rng.randrange(1, 65)])
        cplx = rng.random() < 0.5
        kind = rng.choice(["basis", "distinct", "random", "ramp", "ints", "withinf", "signed", "narrow"] + (["cvalued"] if cplx else []))
        if rng.random() < 0.25:
            M = rng.randrange(65, 513)           # sizes beyond the systematic stratum (numeric coincidences)
        cfg = base_cfg(rng, cplx, M, kind, rng.randrange(0, 64))
    else:
        cfg = est_cfg(rng)
    run = Run(cfg)
    if run.init_error is not None or run.violation is not None:
        return run
    if run.step({"op": "read"}):
        return run
    for _ in range(rng.choice([2, 4, 6, 8, 12])):
        if run.step(gen_op(rng, run)):
            return run
    run.step({"op": "read"})
    return run


def run_index(stratum, index, base_seed, ctx):
    seed = derive_seed(base_seed, PROPERTY, stratum, index)
    if stratum in ("A", "Afull"):
        run = run_systematic(seed, stratum, index)
    elif stratum in N_MAX:
        run = run_numeric(seed, stratum, index)
    else:
        run = run_random(seed)
    if run is not None:
        run.seed = seed
    return run


def replay(cfg, ops, pristine=None, pristine_final=False):
    run = Run(cfg)
    if run.init_error is not None or run.violation is not None:
        return run
    for op in ops:
        if run.step(op):
            break
    return run


def describe(cfg, ops):
    if cfg["kind"] == "base":
        v = dec_array(cfg["vec"])
        head = "Spectrum(%s data, NFFT=%d, sampling=%r).psd = <%s, %d values%s>" % (
            "complex" if cfg["cplx"] else "real", cfg["M"], cfg.get("sampling", 1.0), cfg.get("vkind", "vector"),
            len(v), (": " + str([float(x) for x in v])) if len(v) <= 9 else "")
    else:
        head = "computed " + m07.describe(cfg["est"], []).split(" :: ")[0]
    out = []
    for o in ops:
        k = o["op"]
        if k == "sides":
            out.append("sides=%r" % (o["value"],))
        elif k == "conv":
            out.append("get_converted_psd(%r)" % (o["sides"],))
        elif k == "read":
            out.append("psd")
        elif k == "plot":
            out.append("plot(sides=%r, norm=%r%s)" % (o.get("sides"), bool(o.get("norm")), ", unwritable file" if o.get("fail") else ""))
        elif k == "copy":
            out.append("p = copy.%s(p)" % ("deepcopy" if o.get("deep") else "copy"))
        elif k == "noop_assign":
            out.append("%s=%s" % (o["attr"], "<same>" if o["value"] == "<current>" else repr(o["value"])))
        elif k == "invalidate":
            out.append("%s=%s" % (o["attr"], "<new data>" if o["attr"] == "data" else repr(o["value"])))
        elif k == "setpsd":
            out.append("psd=<%d values>" % len(o["value"]["v"]))
        elif k == "helpers":
            out.append("tools[%d values]: %s" % (len(o["value"]["v"]), " > ".join(o["chain"])))
        else:
            out.append("arma2psd(NFFT=%d, centerdc vs default)" % o["NFFT"])
    return head + " :: " + "; ".join(out)


def culprit(cfg, ops):
    return {"cls": cfg.get("cls", "Spectrum"), "cplx": cfg["cplx"], "M_parity": cfg.get("M", 0) % 2,
            "ops": [o["op"] + ":" + str(o.get("value", o.get("sides", ""))) if o["op"] in ("sides", "conv") else o["op"]
                    for o in ops]}


def simplifications(cfg, ops):
    import copy
    if cfg["kind"] == "base":
        for M in (1, 2, 3, 4, 5, 8, 9):
            if M < cfg["M"] and M % 2 == cfg["M"] % 2:
                c = copy.deepcopy(cfg)
                c["M"] = M
                c["N"] = max(2, M)
                n = M if c["cplx"] else refmodel.n_onesided(M)
                c["vec"] = enc_array(np.array([4.0 * (2 * i + 1) for i in range(n)]))
                c["vkind"] = "distinct"
                if not any(o["op"] == "setpsd" for o in ops):
                    yield c, ops
        if cfg.get("sampling", 1.0) != 1.0:
            c = copy.deepcopy(cfg)
            c["sampling"] = 1.0
            yield c, ops
    for i, o in enumerate(ops):
        if o["op"] == "helpers" and len(o["chain"]) > 1:
            for j in range(len(o["chain"])):
                oo = copy.deepcopy(ops)
                oo[i]["chain"] = o["chain"][:j] + o["chain"][j + 1:]
                yield cfg, oo
            oo = copy.deepcopy(ops)
            oo[i]["chain"] = o["chain"][:-1]
            yield cfg, oo


RULE = ("one run = one seeded history of sides assignments, get_converted_psd calls, re-based psd assignments, "
        "reads, rejected operations, tools-helper chains and arma2psd(sides='centerdc') comparisons applied to one "
        "real Spectrum object holding a stored PSD (base Spectrum with an assigned basis / distinct-value / random "
        "vector, or any of the twelve estimator classes right after a computation). Stratum A enumerates (data "
        "type, NFFT, stored vector incl. every basis vector, every sequence over {onesided, twosided, centerdc} of "
        "length <= 4) and calls get_converted_psd for every target after every step. Distinct = distinct SHA-256 "
        "of the run log. Non-trivial = at least two successful conversions to different targets.")
STATE_MEASURE = "abstract state = (class, data type, NFFT parity, current sides); transition = (state, op, target, outcome)"
COMPONENTS = {
    "real": ["spectrum.psd.Spectrum and subclasses, spectrum.tools helpers, spectrum.arma.arma2psd (from /repo/src "
             "working tree)", "numpy", "mydpss.c (compiled by the check)"],
    "stubbed": [],
    "instrumented": [],
    "reference": ["canonical two-sided spectrum in DFT bin order derived once from the stored vector "
                  "(sim/refmodel.py: canonical_from, render)"],
}
ASSUMPTIONS = [
    "the canonical model (DFT bin order; one-sided interior values split equally; DC and Nyquist unsplit) is the "
    "statement's own definition",
    "a one-sided representation of a complex-data PSD is undefined: such a request may be rejected or accepted, "
    "its result is not examined",
    "values are kept away from subnormals so that halving and re-adding halves is exact",
    "invalidating assignments (sampling, scale_by_freq, same-shape data) occur on estimator-backed objects only; the "
    "model is then re-based on a fresh object's default PSD, and the object's psd is never read by the harness "
    "while the invalidation is pending",
]

PLANS = {
    "quick": {"strata": [("A", 10**9), ("N", 10**9), ("B", 60000)], "opts": {"selftest_n": 60}, "wall_cap_s": 900},
    "thorough": {"strata": [("Afull", 10**9), ("Nfull", 10**9), ("B", 3000000)], "opts": {"selftest_n": 150}, "wall_cap_s": 6 * 3600},
}
