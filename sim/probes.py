"""Fixed probes outside the seeded search.

`pdaniell` is the thirteenth estimator class of the package; the M07 machine does not drive it (DESIGN.md
section 10).  Its PSD is decimated by 2P+1 while the frequency axis stays the one of the plain periodogram,
so C07's clause "frequencies() has the length of psd" fails at the first read of every object with P > 0:
a genuine defect of the pinned tree, listed in known_findings.json (id pdaniell-freq-len).  This probe
re-observes it on the current tree so that the check prints KNOWN-FINDING while it is there and nothing
once it is repaired."""
from . import sut

CASES = [(64, 2, False), (65, 3, False), (128, 4, False), (64, 2, True), (63, 1, True)]


def pdaniell_freq_len():
    """-> list of failing cases (dicts); executed in a pristine child."""
    import numpy as np
    sp = sut.load()
    bad = []
    for N, P, cplx in CASES:
        rng = np.random.RandomState(1000 * N + P)
        x = rng.randn(N) + (1j * rng.randn(N) if cplx else 0.0)
        p = sp.pdaniell(x, P, NFFT=N)
        n_psd = len(p.psd)
        n_f = len(p.frequencies())
        if n_psd != n_f:
            bad.append({"N": N, "P": P, "complex": cplx, "len_psd": n_psd, "len_frequencies": n_f,
                        "sides": p.sides, "NFFT": p.NFFT})
    return bad
