"""Sensitivity and determinism self-tests (not part of the registered checks).

./check selftest --mutants      plant each change below in a scratch copy of /repo/src under /var/tmp,
                                run the quick check of its property at a reduced budget against the copy
                                (VERIF_REPO), expect exit 1; remove the copy.
./check selftest                large determinism sample: N seeds of every stratum, twice in fresh
                                interpreters under different PYTHONHASHSEED, digests must agree.
"""
import json
import os
import shutil
import subprocess
import sys
import tempfile
import time

from . import sut, engine

PSD = "src/spectrum/psd.py"
TOOLS = "src/spectrum/tools.py"

MUTANTS = [
    # id, property, file, old, new
    ("m07_window_setter_no_invalidate", "C07", PSD,
     "        self.__window = window\n        self.modified = True\n", "        self.__window = window\n"),
    ("m07_data_setter_no_invalidate", "C07", PSD,
     "        self.__N = self.data.size # N has no setter, so we use the private version\n        self.modified = True\n",
     "        self.__N = self.data.size # N has no setter, so we use the private version\n"),
    ("m07_detrend_setter_no_invalidate", "C07", PSD,
     "        self.__detrend = detrend\n        self.modified = True\n", "        self.__detrend = detrend\n"),
    ("m07_scale_setter_no_invalidate", "C07", PSD,
     "        self.__scale_by_freq = scale\n        self.modified = True\n", "        self.__scale_by_freq = scale\n"),
    ("m07_fourier_lag_setter_no_invalidate", "C07", PSD,
     "        self.__lag = lag\n        self.modified = True\n    def _get_lag(self):\n        return self.__lag\n    lag = property(fget=_get_lag, fset=_set_lag, doc=\"\"\"Getter/Setter used by the correlogram",
     "        self.__lag = lag\n    def _get_lag(self):\n        return self.__lag\n    lag = property(fget=_get_lag, fset=_set_lag, doc=\"\"\"Getter/Setter used by the correlogram"),
    ("m07_sampling_setter_no_invalidate", "C07", PSD,
     "            self._range.sampling = sampling\n        self.modified = True\n", "            self._range.sampling = sampling\n"),
    ("m07_sampling_setter_range_not_updated", "C07", PSD,
     "            self._range.sampling = sampling\n", "            pass\n"),
    ("m07_ar_order_no_invalidate", "C07", PSD,
     "            if ar != self.__ar_order:\n                self.modified = True\n", ""),
    ("m07_nfft_setter_no_invalidate", "C07", PSD,
     "            self.__sides = self._default_sides()\n            self.modified = True\n",
     "            self.__sides = self._default_sides()\n"),
    ("m07_nfft_setter_range_not_updated", "C07", PSD,
     "            self._range.N = self.__NFFT\n            self.__sides", "            self.__sides"),
    ("m07_getpsd_ignores_modified", "C07", PSD,
     "        if self.__psd is None or self.modified is True:\n            logging.debug('Computing PSD.')",
     "        if self.__psd is None:\n            logging.debug('Computing PSD.')"),
    ("m07_getpsd_clears_flag_before_computing", "C07", PSD,
     "            self()\n            self.modified = False\n        return self.__psd",
     "            self.modified = False\n            self()\n        return self.__psd"),
    ("m07_range_setN_df_not_updated", "C07", PSD,
     "        self.__N = N\n        self.__df = self.__sampling/float(self.__N)\n    N = property", "        self.__N = N\n    N = property"),
    ("m07_sides_setter_converts_obsolete_psd", "C07", PSD,
     "            if self.modified is True:\n                # the stored PSD is obsolete: update it first (this resets\n"
     "                # sides to the default) so that we convert an up-to-date PSD\n                self.psd\n", ""),
    ("m07_get_converted_same_sides_stale", "C07", PSD,
     "        if self.__psd is None or self.modified is True:\n            # make sure that the stored PSD (and its sides) is up-to-date\n            self.psd\n", ""),
    ("m07_setpsd_keeps_old_sides_real", "C07", PSD,
     "            self.__sides = 'onesided'\n", "            pass\n"),
    ("m07_detrend_early_return_inverted", "C07", PSD,
     "        if detrend == self.__detrend:\n            return\n", "        if detrend != self.__detrend and self.__detrend is not None:\n            return\n"),
    # process-global state: only the pristine-process reference can see it
    ("m07_window_cache_keyed_by_name_only", "C07", "src/spectrum/periodogram.py",
     [("        w = Window(r, window)   #same size as input data\n        w = w.data\n",
       "        if window not in _WCACHE:\n            _WCACHE[window] = Window(r, window).data\n        w = _WCACHE[window]\n"),
      ("def speriodogram(x,", "_WCACHE = {}\n\ndef speriodogram(x,")], None),
    # both recompute guards of the D4/D5 repair removed (= pinned behaviour)
    ("m07_sides_paths_convert_obsolete_psd", "C07", PSD,
     [("            if self.modified is True:\n                # the stored PSD is obsolete: update it first (this resets\n"
       "                # sides to the default) so that we convert an up-to-date PSD\n                self.psd\n", ""),
      ("        if self.__psd is None or self.modified is True:\n            # make sure that the stored PSD (and its sides) is up-to-date\n            self.psd\n", "")], None),
    # ---- C06 -----------------------------------------------------------------
    ("m06_cshift_sign", "C06", TOOLS, "    a.rotate(offset)\n", "    a.rotate(-offset)\n"),
    ("m06_twosided_2_centerdc_odd_offbyone", "C06", TOOLS,
     "    return np.concatenate((data[N-N//2:], data[0:N-N//2]))\n", "    return np.concatenate((data[N//2:], data[0:N//2]))\n"),
    ("m06_centerdc_2_twosided_odd_offbyone", "C06", TOOLS,
     "    return np.concatenate((data[N//2:], data[0:N//2]))\n", "    return np.concatenate((data[N-N//2:], data[0:N-N//2]))\n"),
    ("m06_onesided_2_twosided_nyquist_split", "C06", TOOLS,
     "        inner = data[1:-1] / 2.\n        return np.concatenate((data[0:1], inner, data[-1:], inner[::-1]))\n",
     "        inner = data[1:-1] / 2.\n        return np.concatenate((data[0:1], inner, data[-1:] / 2., data[-1:] / 2., inner[::-1]))[:2 * len(data) - 2]\n"),
    ("m06_twosided_2_onesided_no_fold", "C06", TOOLS,
     "        psd[1:N//2] += data[:N//2:-1]\n", "        psd[1:N//2] *= 2\n"),
    ("m06_get_converted_always_even", "C06", PSD,
     "            even = self.NFFT % 2 == 0\n", "            even = True\n"),
    ("m06_get_converted_mutates_sides", "C06", PSD,
     "            newpsd = stools.twosided_2_centerdc(twosided)\n        else:\n            newpsd = stools.twosided_2_onesided(twosided)\n",
     "            newpsd = stools.twosided_2_centerdc(twosided)\n        else:\n            newpsd = stools.twosided_2_onesided(twosided)\n            self._Spectrum__sides = sides\n"),
    ("m06_range_centerdc_half_bin", "C06", PSD,
     "            yield (a-self.N//2) * self.df\n", "            yield (a-self.N/2) * self.df\n"),
    ("m06_centerdc_to_onesided_via_wrong_helper", "C06", PSD,
     "        elif self.sides == 'centerdc':\n            twosided = stools.centerdc_2_twosided(psd)\n",
     "        elif self.sides == 'centerdc':\n            twosided = stools.twosided_2_centerdc(psd)\n"),
]


def plant(root, relpath, old, new):
    path = os.path.join(root, relpath)
    with open(path) as f:
        s = f.read()
    pairs = old if isinstance(old, list) else [(old, new)]
    for o, n in pairs:
        if s.count(o) < 1 or (s.count(o) != 1 and len(o) > 40):
            raise RuntimeError("%s: pattern occurs %d times in %s" % (relpath, s.count(o), path))
        s = s.replace(o, n, 1)
    with open(path, "w") as f:
        f.write(s)


def run_mutants(args):
    base = tempfile.mkdtemp(prefix="verif_selftest_", dir="/var/tmp")
    results = []
    try:
        only = set(args.only.split(",")) if getattr(args, "only", None) else None
        for mid, prop, rel, old, new in MUTANTS:
            if only and mid not in only:
                continue
            root = os.path.join(base, mid)
            os.makedirs(root)
            shutil.copytree(os.path.join(sut.REPO, "src"), os.path.join(root, "src"),
                            ignore=shutil.ignore_patterns("__pycache__"))
            try:
                plant(root, rel, old, new)
            except RuntimeError as e:
                results.append((mid, prop, "PATTERN-MISSING", str(e), 0.0))
                shutil.rmtree(root)
                continue
            env = dict(os.environ)
            env["VERIF_REPO"] = root
            t0 = time.time()
            p = subprocess.run([os.path.join(sut.VERIF, "check"), prop, "--tier", "quick", "--scale", str(args.scale)],
                               env=env, stdout=subprocess.PIPE, stderr=subprocess.STDOUT, timeout=1800)
            out = p.stdout.decode()
            first = [l for l in out.splitlines() if l.startswith("violation ")][:1]
            results.append((mid, prop, {1: "CAUGHT", 0: "MISSED"}.get(p.returncode, "HARNESS(%d)" % p.returncode),
                            first[0][:160] if first else out[-300:].replace("\n", " | "), time.time() - t0))
            print("%-48s %s %-12s %5.1fs  %s" % (mid, prop, results[-1][2], results[-1][4], results[-1][3]))
            sys.stdout.flush()
            shutil.rmtree(root)
    finally:
        shutil.rmtree(base, ignore_errors=True)
        # evidence files were rewritten by runs against mutated copies: they are not evidence
        print("NOTE: evidence/*.json now describe runs against mutated copies; re-run the checks before committing evidence")
    missed = [r for r in results if r[2] != "CAUGHT"]
    print("mutants: %d planted, %d caught, %d not caught" % (len(results), len(results) - len(missed), len(missed)))
    return 0 if not missed else 1


def run_determinism(args):
    rc = 0
    for mname in ("C06", "C07"):
        m = engine.machine_by_name(mname)
        plan = []
        for stratum, count in m.PLANS["quick"]["strata"]:
            size = m.stratum_size(stratum)
            idxs = engine.index_list(size, min(count, args.seeds), 424242, "selftest:" + stratum)
            plan.append((stratum, idxs))
        outs = []
        for hs, threads in (("0", "1"), ("1", "4"), ("98765", "1")):
            env = dict(os.environ)
            env["PYTHONHASHSEED"] = hs
            env["OPENBLAS_NUM_THREADS"] = threads
            p = subprocess.run([sys.executable, "-B", os.path.join(sut.VERIF, "sim", "cli.py"), "digests", mname,
                                "--seed", "424242", "--plan", json.dumps(plan), "--opts", "{}"],
                               env=env, stdout=subprocess.PIPE, stderr=subprocess.PIPE, timeout=3600)
            if p.returncode != 0:
                print("determinism %s: inner run failed: %s" % (mname, p.stderr.decode()[-800:]))
                return 2
            outs.append(json.loads(p.stdout.decode().strip().splitlines()[-1]))
        diff = [k for k in outs[0] if outs[0][k] != outs[1].get(k) or outs[0][k] != outs[2].get(k)]
        print("determinism %s: %d runs x 3 fresh interpreters (PYTHONHASHSEED 0/1/98765, BLAS threads 1/4/1): %d mismatches"
              % (mname, len(outs[0]), len(diff)))
        if diff:
            print("  first mismatches: %s" % diff[:5])
            rc = 1
    return rc


def run_model(args):
    """The canonical model of refmodel.py against an independent derivation with numpy.fft: for a real
    signal, |FFT|^2 is the two-sided spectrum, fftshift gives the centre-DC ordering and fftfreq the
    axes; the one-sided spectrum is the fold.  Also: every rendering of a model rebuilt from any
    rendering is the same vector (the model is a fixed point)."""
    import numpy as np
    from . import refmodel as R
    rng = np.random.RandomState(12345)
    bad = 0
    n = 0
    for M in range(1, 130):
        x = rng.randn(M)
        T = np.abs(np.fft.fft(x)) ** 2
        f = np.rint(np.fft.fftfreq(M) * M)   # signed integer bins in FFT order
        cen = R.render(T, "centerdc")
        one = R.render(T, "onesided")
        n += 1
        ok = np.array_equal(cen, np.fft.fftshift(T))
        ok &= np.array_equal(np.array(R.bins_of("centerdc", M)), np.fft.fftshift(f).astype(int))
        ok &= len(one) == len(np.fft.rfft(x))
        fold = np.zeros(len(one))
        for k in range(M):
            fold[int(abs(f[k]))] += T[k]
        ok &= bool(np.allclose(one, fold, rtol=1e-13, atol=0))
        ok &= abs(one.sum() - T.sum()) <= 1e-12 * T.sum()
        for s in ("onesided", "twosided", "centerdc"):
            T2 = R.canonical_from(R.render(T, s), s, M)
            for t in ("onesided", "twosided", "centerdc"):
                ok &= bool(np.allclose(R.render(T2, t), R.render(T, t), rtol=1e-13, atol=0))
        # exactness of the halving round trip on the distinct-value vectors the machine uses
        v = np.array([4.0 * (2 * i + 1) for i in range(R.n_onesided(M))])
        ok &= np.array_equal(R.render(R.canonical_from(v, "onesided", M), "onesided"), v)
        if not ok:
            bad += 1
            print("model mismatch at M=%d" % M)
    print("reference model: %d sizes checked against numpy.fft (fftshift, fftfreq, rfft length, fold), %d mismatches" % (n, bad))
    return 0 if bad == 0 else 1


def main(args):
    if args.mutants:
        return run_mutants(args)
    if getattr(args, "model", False):
        return run_model(args)
    return run_determinism(args)
