"""Seeds, digests, JSON encoding of arrays. No randomness and no clock in here."""
import hashlib
import json
import math

MASK = (1 << 64) - 1


def splitmix64(x):
    x = (x + 0x9E3779B97F4A7C15) & MASK
    z = x
    z = ((z ^ (z >> 30)) * 0xBF58476D1CE4E5B9) & MASK
    z = ((z ^ (z >> 27)) * 0x94D049BB133111EB) & MASK
    return z ^ (z >> 31)


def derive_seed(base, *parts):
    """One integer in, one integer out: base seed + (property, stratum, index...)."""
    h = splitmix64(base & MASK)
    for p in parts:
        if isinstance(p, str):
            p = int.from_bytes(hashlib.sha256(p.encode()).digest()[:8], "big")
        h = splitmix64(h ^ (p & MASK))
    return h


def enc_array(a):
    """numpy array / list -> JSON-able, exactly round-tripping."""
    import numpy as np
    a = np.asarray(a)
    if np.iscomplexobj(a):
        return {"t": "c", "v": [[float(z.real), float(z.imag)] for z in a.ravel()]}
    if a.dtype.kind in "iu":
        d = {"t": "i", "v": [int(z) for z in a.ravel()]}
        if a.dtype != np.int64:
            d["d"] = a.dtype.name
        return d
    d = {"t": "r", "v": [float(z) for z in a.ravel()]}
    if a.dtype == np.float32:
        d["d"] = "float32"
    return d


def dec_array(d):
    import numpy as np
    if d["t"] == "c":
        return np.array([complex(r, i) for r, i in d["v"]], dtype=complex)
    if d["t"] == "i":
        return np.array(d["v"], dtype=np.dtype(d.get("d", "int64")))
    return np.array(d["v"], dtype=np.dtype(d.get("d", "float64")))


def fnum(x):
    """float -> JSON-safe token (NaN/inf as strings) for digests and logs."""
    x = float(x)
    if math.isnan(x):
        return "nan"
    if math.isinf(x):
        return "inf" if x > 0 else "-inf"
    return x.hex()


def arr_digest(a):
    """Digest of an array's exact content (shape, dtype kind, bytes)."""
    import numpy as np
    if a is None:
        return "none"
    a = np.ascontiguousarray(np.asarray(a))
    h = hashlib.sha256()
    h.update(str(a.shape).encode())
    h.update(a.dtype.str.encode())
    h.update(a.tobytes())
    return h.hexdigest()[:16]


def log_digest(log):
    return hashlib.sha256(json.dumps(log, sort_keys=True, default=str).encode()).hexdigest()
